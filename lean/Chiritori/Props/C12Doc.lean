import Chiritori.Props.C12
import Chiritori.Props.C13Count
import Chiritori.Props.C13Doc
/-
  C12 at document level (text after removal, block-style seams): on every non-blank line the formatting pass deletes
  exactly the union of the ranges the block indent remover computes for the unwrapped blocks around the line.
-/
namespace Chiritori.Props.C12
open Chiritori Chiritori.Spec Chiritori.Props.C13

/-! ### `merge_ranges` of two lists sorted by start is sorted by start -/

def LeS (a b : Rng') : Prop := a.1 ≤ b.1

theorem startSorted_iff : ∀ (l : List Rng'), StartSorted l ↔ l.Pairwise LeS
  | [] => by simp [StartSorted]
  | [_] => by simp [StartSorted]
  | x :: y :: rest => by
    simp only [StartSorted, List.pairwise_cons, startSorted_iff (y :: rest)]
    constructor
    · rintro ⟨h1, h2⟩
      refine ⟨?_, h2⟩
      intro a ha
      rcases List.mem_cons.mp ha with rfl | ha
      · exact h1
      · exact Nat.le_trans h1 (h2.1 a ha)
    · rintro ⟨h1, h2⟩
      exact ⟨h1 y (by simp), h2⟩

theorem insertByStart_sorted (x : Rng') : ∀ (l : List Rng'), l.Pairwise LeS → (insertByStart x l).Pairwise LeS
  | [], _ => by simp [insertByStart]
  | y :: ys, h => by
    simp only [insertByStart]
    simp only [List.pairwise_cons] at h
    split
    · rename_i hlt
      simp only [List.pairwise_cons]
      refine ⟨?_, h⟩
      intro a ha
      rcases List.mem_cons.mp ha with rfl | ha
      · exact hlt
      · exact Nat.le_trans hlt (h.1 a ha)
    · rename_i hge
      simp only [List.pairwise_cons]
      refine ⟨?_, insertByStart_sorted x ys h.2⟩
      intro a ha
      rcases mem_insertByStart x ys a ha with rfl | ha
      · unfold LeS; omega
      · exact h.1 a ha

theorem sortByStart_sorted : ∀ (l : List Rng'), (sortByStart l).Pairwise LeS
  | [] => by simp [sortByStart]
  | x :: xs => by
    have := sortByStart_sorted xs
    simp only [sortByStart, List.foldr_cons] at this ⊢
    exact insertByStart_sorted x _ this

theorem findCursor_some (ranges : List Rng') (s : Nat) : ∀ (c i : Nat), findCursor ranges s c = some i →
    i ≤ c ∧ (∃ r, ranges[i]? = some r ∧ r.1 < s) ∧ ∀ j r, i < j → j ≤ c → ranges[j]? = some r → s ≤ r.1
  | 0, i, h => by
    simp only [findCursor] at h
    cases h0 : ranges[0]? with
    | none => rw [h0] at h; simp at h
    | some r =>
      rw [h0] at h
      simp only at h
      split at h
      · rename_i hlt
        injection h with h; subst h
        exact ⟨Nat.le_refl _, ⟨r, h0, hlt⟩, by intro j r' h1 h2; omega⟩
      · simp at h
  | c + 1, i, h => by
    simp only [findCursor] at h
    cases hc : ranges[c + 1]? with
    | none => rw [hc] at h; simp at h
    | some r =>
      rw [hc] at h
      simp only at h
      split at h
      · rename_i hlt
        injection h with h; subst h
        exact ⟨Nat.le_refl _, ⟨r, hc, hlt⟩, by intro j r' h1 h2; omega⟩
      · rename_i hge
        obtain ⟨a1, a2, a3⟩ := findCursor_some ranges s c i h
        refine ⟨by omega, a2, ?_⟩
        intro j r' h1 h2 hj
        by_cases hjc : j = c + 1
        · subst hjc
          rw [hc] at hj
          injection hj with hj
          subst hj
          omega
        · exact a3 j r' h1 (by omega) hj

theorem findCursor_none (ranges : List Rng') (s : Nat) : ∀ (c : Nat), c < ranges.length → findCursor ranges s c = none →
    ∀ j r, j ≤ c → ranges[j]? = some r → s ≤ r.1
  | 0, hc, h => by
    intro j r hj hr
    have : j = 0 := by omega
    subst this
    simp only [findCursor, hr] at h
    split at h
    · simp at h
    · omega
  | c + 1, hc, h => by
    intro j r hj hr
    simp only [findCursor] at h
    have hcr : ranges[c + 1]? = some ranges[c + 1] := List.getElem?_eq_getElem hc
    rw [hcr] at h
    simp only at h
    split at h
    · simp at h
    · rename_i hge
      by_cases hjc : j = c + 1
      · subst hjc
        rw [hcr] at hr
        injection hr with hr
        subst hr
        omega
      · exact findCursor_none ranges s c (by omega) h j r (by omega) hr

theorem insertAt_sorted (l : List Rng') (i : Nat) (x : Rng') (hl : l.Pairwise LeS)
    (h1 : ∀ a ∈ l.take i, a.1 ≤ x.1) (h2 : ∀ b ∈ l.drop i, x.1 ≤ b.1) : (insertAt l i x).Pairwise LeS := by
  unfold insertAt
  rw [List.append_assoc, List.pairwise_append]
  have hsplit := List.take_append_drop i l
  rw [← hsplit, List.pairwise_append] at hl
  obtain ⟨p1, p2, p3⟩ := hl
  refine ⟨p1, ?_, ?_⟩
  · simp only [List.singleton_append, List.pairwise_cons]
    exact ⟨h2, p2⟩
  · intro a ha b hb
    simp only [List.singleton_append, List.mem_cons] at hb
    rcases hb with rfl | hb
    · exact h1 a ha
    · exact p3 a ha b hb

/-- the state of the merge loop: sorted, and everything behind the cursor starts at or behind `bound` -/
def LoopInv (ranges : List Rng') (cursor : Option Nat) (bound : Nat) : Prop :=
  ranges.Pairwise LeS ∧
  match cursor with
  | some c => c < ranges.length ∧ ∀ j r, c < j → ranges[j]? = some r → bound ≤ r.1
  | none => ∀ r ∈ ranges, bound ≤ r.1

theorem mem_take_idx {α} (l : List α) (i : Nat) (a : α) (h : a ∈ l.take i) : ∃ j, j < i ∧ l[j]? = some a := by
  obtain ⟨j, hj⟩ := List.getElem?_of_mem h
  rw [List.getElem?_take] at hj
  split at hj
  · exact ⟨j, by assumption, hj⟩
  · simp at hj

theorem mem_drop_idx {α} (l : List α) (i : Nat) (a : α) (h : a ∈ l.drop i) : ∃ j, i ≤ j ∧ l[j]? = some a := by
  obtain ⟨j, hj⟩ := List.getElem?_of_mem h
  rw [List.getElem?_drop] at hj
  exact ⟨i + j, by omega, hj⟩

theorem insertAt_getElem_ge (l : List Rng') (i : Nat) (x : Rng') (hi : i ≤ l.length) (j : Nat) (r : Rng')
    (hj : i < j) (h : (insertAt l i x)[j]? = some r) : l[j - 1]? = some r := by
  unfold insertAt at h
  rw [List.append_assoc, List.getElem?_append_right (by simp [Nat.min_eq_left hi]; omega)] at h
  simp only [List.length_take, Nat.min_eq_left hi] at h
  rw [List.getElem?_append_right (by simp; omega)] at h
  simp only [List.length_singleton, List.getElem?_drop] at h
  rw [show i + (j - i - 1) = j - 1 by omega] at h
  exact h

theorem mergeRangesLoop_sorted : ∀ (news : List Rng') (ranges : List Rng') (cursor : Option Nat) (bound : Nat),
    LoopInv ranges cursor bound → news.Pairwise (fun a b => b.1 ≤ a.1) → (∀ n ∈ news, n.1 ≤ bound) →
    (mergeRangesLoop ranges cursor news).Pairwise LeS
  | [], ranges, _, _, hinv, _, _ => by simp only [mergeRangesLoop]; exact hinv.1
  | n :: ns, ranges, cursor, bound, hinv, hdesc, hb => by
    simp only [List.pairwise_cons] at hdesc
    obtain ⟨hd1, hd2⟩ := hdesc
    have hnb : n.1 ≤ bound := hb n (by simp)
    obtain ⟨hsorted, hcur⟩ := hinv
    simp only [mergeRangesLoop]
    cases cursor with
    | none =>
      simp only at hcur ⊢
      apply mergeRangesLoop_sorted ns _ none n.1 _ hd2 (fun m hm => hd1 m hm)
      refine ⟨insertAt_sorted ranges 0 n hsorted (by simp) (by
        intro b hb'
        simp only [List.drop_zero] at hb'
        exact Nat.le_trans hnb (hcur b hb')), ?_⟩
      intro r hr
      rcases mem_insertAt ranges 0 n r hr with rfl | hr
      · exact Nat.le_refl _
      · exact Nat.le_trans hnb (hcur r hr)
    | some c =>
      obtain ⟨hclt, hafter⟩ := hcur
      simp only
      cases hfc : findCursor ranges n.1 c with
      | none =>
        simp only
        have hall : ∀ r ∈ ranges, n.1 ≤ r.1 := by
          intro r hr
          obtain ⟨j, hj⟩ := List.getElem?_of_mem hr
          by_cases hjc : j ≤ c
          · exact findCursor_none ranges n.1 c hclt hfc j r hjc hj
          · exact Nat.le_trans hnb (hafter j r (by omega) hj)
        apply mergeRangesLoop_sorted ns _ none n.1 _ hd2 (fun m hm => hd1 m hm)
        refine ⟨insertAt_sorted ranges 0 n hsorted (by simp) (by
          intro b hb'
          simp only [List.drop_zero] at hb'
          exact hall b hb'), ?_⟩
        intro r hr
        rcases mem_insertAt ranges 0 n r hr with rfl | hr
        · exact Nat.le_refl _
        · exact hall r hr
      | some i =>
        simp only
        obtain ⟨a1, ⟨ri, hri, hlt⟩, a3⟩ := findCursor_some ranges n.1 c i hfc
        have hilt : i < ranges.length := by omega
        have hpw := List.pairwise_iff_getElem.mp hsorted
        apply mergeRangesLoop_sorted ns _ (some i) n.1 _ hd2 (fun m hm => hd1 m hm)
        refine ⟨insertAt_sorted ranges (i + 1) n hsorted ?_ ?_, ?_, ?_⟩
        · intro a ha
          obtain ⟨j, hj1, hj2⟩ := mem_take_idx ranges (i + 1) a ha
          have hjl : j < ranges.length := lt_of_getElem?_some _ _ _ hj2
          rw [List.getElem?_eq_getElem hjl] at hj2
          rw [List.getElem?_eq_getElem hilt] at hri
          injection hj2 with hj2
          injection hri with hri
          by_cases hji : j = i
          · subst hji; rw [← hj2, hri]; omega
          · have := hpw j i hjl hilt (by omega)
            unfold LeS at this
            rw [hj2, hri] at this
            omega
        · intro b hb'
          obtain ⟨j, hj1, hj2⟩ := mem_drop_idx ranges (i + 1) b hb'
          by_cases hjc : j ≤ c
          · exact a3 j b (by omega) hjc hj2
          · exact Nat.le_trans hnb (hafter j b (by omega) hj2)
        · unfold insertAt
          simp [Nat.min_eq_left (show i + 1 ≤ ranges.length by omega)]
          omega
        · intro j r hj hr
          by_cases hj1 : j = i + 1
          · subst hj1
            unfold insertAt at hr
            rw [List.append_assoc, List.getElem?_append_right (by simp [Nat.min_eq_left (show i + 1 ≤ ranges.length by omega)])] at hr
            simp [Nat.min_eq_left (show i + 1 ≤ ranges.length by omega)] at hr
            rw [← hr]
            exact Nat.le_refl _
          · have := insertAt_getElem_ge ranges (i + 1) n (by omega) j r (by omega) hr
            by_cases hjc : j - 1 ≤ c
            · exact a3 (j - 1) r (by omega) hjc this
            · exact Nat.le_trans hnb (hafter (j - 1) r (by omega) this)

theorem mergeRanges_sorted (ranges news : List Rng') (hr : ranges.Pairwise LeS) (hn : news.Pairwise LeS) :
    (mergeRanges ranges news).Pairwise LeS := by
  unfold mergeRanges
  split
  · exact hr
  · rename_i hne
    have hlen : 0 < ranges.length := by
      cases ranges with
      | nil => simp at hne
      | cons _ _ => simp
    -- the largest start among the new ranges bounds them all
    cases hrev : news.reverse with
    | nil => simp only [mergeRangesLoop]; exact hr
    | cons top rest =>
      apply mergeRangesLoop_sorted _ ranges (some (ranges.length - 1)) top.1
      · exact ⟨hr, by omega, by
          intro j r hj hjr
          have := lt_of_getElem?_some _ _ _ hjr
          omega⟩
      · rw [← hrev, List.pairwise_reverse]
        exact hn
      · intro m hm
        rcases List.mem_cons.mp hm with rfl | hm
        · exact Nat.le_refl _
        · have hp : (top :: rest).Pairwise (fun a b => b.1 ≤ a.1) := by
            rw [← hrev, List.pairwise_reverse]; exact hn
          simp only [List.pairwise_cons] at hp
          exact hp.1 m hm

theorem mem_insertAt_iff (l : List Rng') (i : Nat) (y x : Rng') : x ∈ insertAt l i y ↔ x = y ∨ x ∈ l := by
  unfold insertAt
  simp only [List.mem_append, List.mem_singleton]
  constructor
  · rintro ((h | h) | h)
    · exact Or.inr (List.mem_of_mem_take h)
    · exact Or.inl h
    · exact Or.inr (List.mem_of_mem_drop h)
  · rintro (h | h)
    · exact Or.inl (Or.inr h)
    · have := List.take_append_drop i l
      rw [← this, List.mem_append] at h
      rcases h with h | h
      · exact Or.inl (Or.inl h)
      · exact Or.inr h

theorem mem_mergeRangesLoop_conv : ∀ (news ranges : List Rng') (cur : Option Nat) (x : Rng'),
    x ∈ ranges ∨ x ∈ news → x ∈ mergeRangesLoop ranges cur news
  | [], ranges, _, x, h => by
    rcases h with h | h
    · exact h
    · cases h
  | n :: ns, ranges, cur, x, h => by
    simp only [mergeRangesLoop]
    have key : ∀ (i : Nat) (c' : Option Nat), x ∈ mergeRangesLoop (insertAt ranges i n) c' ns := by
      intro i c'
      apply mem_mergeRangesLoop_conv ns _ c' x
      rcases h with h | h
      · exact Or.inl ((mem_insertAt_iff ranges i n x).mpr (Or.inr h))
      · rcases List.mem_cons.mp h with rfl | h
        · exact Or.inl ((mem_insertAt_iff ranges i x x).mpr (Or.inl rfl))
        · exact Or.inr h
    split <;> exact key _ _

theorem mem_mergeRanges_conv (ranges news : List Rng') (hne : ranges ≠ []) (x : Rng') (h : x ∈ ranges ∨ x ∈ news) :
    x ∈ mergeRanges ranges news := by
  unfold mergeRanges
  rw [if_neg (by simpa using hne)]
  apply mem_mergeRangesLoop_conv
  rcases h with h | h
  · exact Or.inl h
  · exact Or.inr (by simpa using h)

/-! ### the block ranges of the collection loop -/

/-- `r` is one of the ranges the block indent remover computes for a pair of seams of `pos` -/
def BlockRangeOf (K : Bytes) (all ps : List (Nat × Option Nat)) (r : Rng') : Prop :=
  ∃ p ∈ ps, ∃ j q x, p.2 = some j ∧ all[j]? = some (q, x) ∧ p.1 < q ∧ r ∈ fmtBlockIndent K p.1 q

theorem formatCollect_blocks (b : Bytes) (all : List (Nat × Option Nat)) : ∀ (ps : List (Nat × Option Nat))
    (rs bs : List Rng'), formatCollect b all ps = .ok (rs, bs) → ∀ r, r ∈ bs ↔ BlockRangeOf b all ps r
  | [], rs, bs, h, r => by
    simp only [formatCollect] at h
    injection h with h
    injection h with _ h2
    subst h2
    simp [BlockRangeOf]
  | (pos, pair) :: rest, rs, bs, h, r => by
    simp only [formatCollect] at h
    cases h1 : formatBlock b pos seamFormatters (pos, pos) with
    | error e => rw [h1] at h; simp at h
    | ok range =>
      rw [h1] at h
      simp only at h
      -- the block ranges of this position
      have key : ∀ (blk : List Rng') (rs' bs' : List Rng'), formatCollect b all rest = .ok (rs', bs') →
          (∀ x, x ∈ blk ↔ ∃ j q y, pair = some j ∧ all[j]? = some (q, y) ∧ pos < q ∧ x ∈ fmtBlockIndent b pos q) →
          (r ∈ blk ++ bs' ↔ BlockRangeOf b all ((pos, pair) :: rest) r) := by
        intro blk rs' bs' h2 hblk
        have ih := formatCollect_blocks b all rest rs' bs' h2 r
        rw [List.mem_append, hblk r, ih]
        unfold BlockRangeOf
        constructor
        · rintro (⟨j, q, y, e1, e2, e3, e4⟩ | ⟨p, hp, g⟩)
          · exact ⟨(pos, pair), by simp, j, q, y, e1, e2, e3, e4⟩
          · exact ⟨p, by simp [hp], g⟩
        · rintro ⟨p, hp, j, q, y, e1, e2, e3, e4⟩
          rcases List.mem_cons.mp hp with rfl | hp
          · exact Or.inl ⟨j, q, y, e1, e2, e3, e4⟩
          · exact Or.inr ⟨p, hp, j, q, y, e1, e2, e3, e4⟩
      cases pair with
      | none =>
        simp only at h
        cases h2 : formatCollect b all rest with
        | error e => rw [h2] at h; simp at h
        | ok rb =>
          obtain ⟨rs', bs'⟩ := rb
          rw [h2] at h
          simp only at h
          injection h with h
          injection h with _ hbs
          rw [← hbs]
          exact key [] rs' bs' h2 (by intro x; simp)
      | some i =>
        simp only at h
        cases hi : all[i]? with
        | none => rw [hi] at h; simp at h
        | some qy =>
          obtain ⟨q, y⟩ := qy
          rw [hi] at h
          simp only at h
          by_cases hlt : pos < q
          · rw [if_pos hlt] at h
            simp only at h
            cases h2 : formatCollect b all rest with
            | error e => rw [h2] at h; simp at h
            | ok rb =>
              obtain ⟨rs', bs'⟩ := rb
              rw [h2] at h
              simp only at h
              injection h with h
              injection h with _ hbs
              rw [← hbs]
              apply key _ rs' bs' h2
              intro x
              constructor
              · intro hx; exact ⟨i, q, y, rfl, hi, hlt, hx⟩
              · rintro ⟨j, q', y', e1, e2, e3, e4⟩
                injection e1 with e1
                subst e1
                rw [hi] at e2
                injection e2 with e2
                injection e2 with e2 _
                subst e2
                exact e4
          · rw [if_neg hlt] at h
            simp only at h
            cases h2 : formatCollect b all rest with
            | error e => rw [h2] at h; simp at h
            | ok rb =>
              obtain ⟨rs', bs'⟩ := rb
              rw [h2] at h
              simp only at h
              injection h with h
              injection h with _ hbs
              rw [← hbs]
              apply key _ rs' bs' h2
              intro x
              constructor
              · intro hx; simp at hx
              · rintro ⟨j, q', y', e1, e2, e3, e4⟩
                injection e1 with e1
                subst e1
                rw [hi] at e2
                injection e2 with e2
                injection e2 with e2 _
                subst e2
                exact absurd e3 hlt

theorem formatCollect_ranges_ne (b : Bytes) (all : List (Nat × Option Nat)) : ∀ (ps : List (Nat × Option Nat))
    (rs bs : List Rng'), formatCollect b all ps = .ok (rs, bs) → ps ≠ [] → rs ≠ []
  | [], _, _, _, h => absurd rfl h
  | (pos, pair) :: rest, rs, bs, h, _ => by
    simp only [formatCollect] at h
    cases h1 : formatBlock b pos seamFormatters (pos, pos) with
    | error e => rw [h1] at h; simp at h
    | ok range =>
      rw [h1] at h
      simp only at h
      split at h
      · simp at h
      · cases h2 : formatCollect b all rest with
        | error e => rw [h2] at h; simp at h
        | ok rb =>
          obtain ⟨rs', bs'⟩ := rb
          rw [h2] at h
          simp only at h
          injection h with h
          injection h with hrs _
          rw [← hrs]; simp

/-! ### what the formatting pass deletes on a non-blank line -/

/-- C12 at the level of the text after removal, block-style seams: the pass deletes every byte of every range the block
    indent remover computes, and on a non-blank line it deletes nothing else -/
theorem c12_deleted (s1 : List Char) (pos : List (Nat × Option Nat)) (o : Bytes)
    (hps : PosSorted pos) (hbs : BlockStyleK (bytesOf s1) (pos.map (·.1)))
    (hf : format (bytesOf s1) pos = .ok o) :
    ∃ F, o = minusFrom (bytesOf s1) 0 F ∧
      (∀ r, BlockRangeOf (bytesOf s1) pos pos r → ∀ d, Rng.contains r d = true → inAny F d = true) ∧
      (∀ ls le x, IsLS (bytesOf s1) ls → ls ≤ x → x < le → le ≤ (bytesOf s1).length →
        (∀ i, ls ≤ i → i < le → (bytesOf s1)[i]? ≠ some NL) →
        ((bytesOf s1)[le]? = some NL ∨ le = (bytesOf s1).length) →
        (∃ y, (bytesOf s1)[x]? = some y ∧ isWs y = false) →
        ∀ d, ls ≤ d → d ≤ le → d < (bytesOf s1).length → inAny F d = true →
          ∃ r, BlockRangeOf (bytesOf s1) pos pos r ∧ Rng.contains r d = true) := by
  unfold format at hf
  cases hfc : formatCollect (bytesOf s1) pos pos with
  | error e => rw [hfc] at hf; simp at hf
  | ok rb =>
    obtain ⟨ranges, blocks⟩ := rb
    rw [hfc] at hf
    simp only at hf
    obtain ⟨ok1, ok2⟩ := formatCollect_ok s1 pos pos ranges blocks hfc
    have horig := ranges_origin _ pos pos ranges blocks hfc
    have hblk := formatCollect_blocks _ pos pos ranges blocks hfc
    have hall : ∀ x ∈ mergeRanges ranges (sortByStart blocks), RangeOK s1 x := by
      intro x hx
      rcases mem_mergeRanges _ _ _ hx with hx | hx
      · exact ok1 x hx
      · exact ok2 x (mem_sortByStart _ _ hx)
    obtain ⟨m1, m2⟩ := mergeOverlapped_spec s1 _ hall
    rw [deleteRanges_eq_deleteAll] at hf
    have hrsF := RSorted_of_OSorted s1 _ m1 m2 0 (fun _ _ => Nat.zero_le _)
    have heq := deleteAll_eq (bytesOf s1) _ 0 hrsF o hf
    simp only [List.take_zero, List.drop_zero, List.nil_append] at heq
    have hbs1 : ∀ p ∈ pos, BlockStyleK (bytesOf s1) [p.1] := by
      intro p hp q hq
      simp only [List.mem_singleton] at hq
      subst hq
      exact hbs p.1 (List.mem_map.mpr ⟨p, hp, rfl⟩)
    refine ⟨_, heq, ?_, ?_⟩
    · -- every block range is deleted
      intro r hr d hd
      have hrb : r ∈ blocks := (hblk r).mpr hr
      obtain ⟨p, hp, _⟩ := hr
      have hne : ranges ≠ [] := formatCollect_ranges_ne _ pos pos ranges blocks hfc (by
        intro h; rw [h] at hp; cases hp)
      have hsr : StartSorted ranges := (formatCollect_sorted s1 pos pos ranges blocks hfc hps hbs1).1
      have hsorted : StartSorted (mergeRanges ranges (sortByStart blocks)) :=
        (startSorted_iff _).mpr (mergeRanges_sorted _ _ ((startSorted_iff _).mp hsr) (sortByStart_sorted _))
      apply mergeOverlapped_cover _ hsorted d
      simp only [inAny, List.any_eq_true]
      refine ⟨r, mem_mergeRanges_conv _ _ hne r (Or.inr ?_), hd⟩
      -- membership in the sorted list
      have : ∀ (l : List Rng') (x : Rng'), x ∈ l → x ∈ sortByStart l := by
        intro l
        induction l with
        | nil => intro x hx; cases hx
        | cons a as ih =>
          intro x hx
          simp only [sortByStart, List.foldr_cons]
          have hins : ∀ (y : Rng') (m : List Rng') (z : Rng'), z = y ∨ z ∈ m → z ∈ insertByStart y m := by
            intro y m
            induction m with
            | nil => intro z hz; rcases hz with rfl | hz; simp [insertByStart]; cases hz
            | cons b bs ihm =>
              intro z hz
              simp only [insertByStart]
              split
              · rcases hz with rfl | hz
                · simp
                · exact List.mem_cons_of_mem _ hz
              · rcases hz with rfl | hz
                · exact List.mem_cons_of_mem _ (ihm z (Or.inl rfl))
                · rcases List.mem_cons.mp hz with rfl | hz
                  · simp
                  · exact List.mem_cons_of_mem _ (ihm z (Or.inr hz))
          rcases List.mem_cons.mp hx with rfl | hx
          · exact hins x _ x (Or.inl rfl)
          · exact hins a _ x (Or.inr (ih x hx))
      exact this blocks r hrb
    · -- on a non-blank line nothing else is deleted
      intro ls le x hls hx1 hx2 hle hnonl hterm hxw d hd1 hd2 hd3 hFd
      have hd' := C14.merged_subset _ d hFd
      simp only [inAny, List.any_eq_true] at hd'
      obtain ⟨h, hh, hhd⟩ := hd'
      rcases mem_mergeRanges _ _ _ hh with hh | hh
      · -- a seam range cannot reach into a non-blank line
        exfalso
        simp only [Rng.contains, Bool.and_eq_true, decide_eq_true_eq] at hhd
        obtain ⟨p, hp, hfb⟩ := horig h hh
        have hsp := hull_shape s1 p.1 h hfb
        obtain ⟨hnl, hple, lsp, l1, l2, l3, l4⟩ := hbs p.1 (List.mem_map.mpr ⟨p, hp, rfl⟩)
        obtain ⟨y, hy, hyw⟩ := hxw
        have := non_blank_line_intact s1 p.1 h hsp (by
            rcases hnl with hnl | hnl
            · exact Or.inl hnl
            · exact Or.inr (by simpa using hnl))
          ls le x (LineStart_of_IsLS _ _ hls) hx1 hx2 hnonl
          (by
            intro y' hy' hw
            rw [hy] at hy'
            injection hy' with hy'
            subst hy'
            have := isWs_of_isWsByte y hw
            rw [hyw] at this; exact absurd this (by simp))
          (by have := lt_of_getElem?_some _ _ _ hy; simpa using this)
          (by
            intro _
            by_cases h1 : p.1 ≤ ls
            · exact Or.inl h1
            · by_cases h2 : le < p.1
              · exact Or.inr h2
              · exfalso
                have hpe : p.1 = le := by
                  rcases hnl with hnl | hnl
                  · by_cases hlt : p.1 < le
                    · exact absurd hnl (hnonl p.1 (by omega) hlt)
                    · omega
                  · omega
                have hlseq : lsp = ls := by
                  rcases Nat.lt_trichotomy lsp ls with hlt | heq | hgt
                  · exfalso
                    rcases hls with hls | hls
                    · omega
                    · obtain ⟨z, hz, hzs⟩ := l3 (ls - 1) (by omega) (by omega)
                      rw [hls] at hz
                      injection hz with hz
                      subst hz
                      rcases hzs with h | h <;> simp [NL] at h
                  · exact heq
                  · exfalso
                    rcases l2 with l2 | l2
                    · omega
                    · exact hnonl (lsp - 1) (by omega) (by omega) l2
                subst hlseq
                obtain ⟨z, hz, hzs⟩ := l3 x hx1 (by omega)
                rw [hy] at hz
                injection hz with hz
                subst hz
                rcases hzs with h | h <;> (subst h; simp [isWs] at hyw))
        omega
      · exact ⟨h, (hblk h).mp (mem_sortByStart _ _ hh), hhd⟩

/-- C12 at document level: when all seams are block-style, the formatting pass deletes, from the text after removal,
    every range the block indent remover computes for a head seam and its tail seam, and on a non-blank line nothing
    else - each such range being `lineRange ls ip (tag column) (first line's indent - tag column)` for a line start
    `ls` of the block (`fmtBlockIndent_shape`) -/
theorem c12_document (src ds de : List Char) (cfg : Cfg) (out : List Char) (hde : de ≠ [])
    (hbs : BlockStyleK (minusRanges (bytesOf src) (extentsOfSource src ds de cfg))
      (positions (buildRemoveMarker cfg (bytesOf src) (parseSource src ds de)) 0))
    (h : clean src ds de cfg = .ok out) :
    let K := minusRanges (bytesOf src) (extentsOfSource src ds de cfg)
    let M := buildRemoveMarker cfg (bytesOf src) (parseSource src ds de)
    let pos := (positions M 0).zip (M.map (·.pair))
    ∃ F, bytesOf out = minusFrom K 0 F ∧
      (∀ r, BlockRangeOf K pos pos r → ∀ d, Rng.contains r d = true → inAny F d = true) ∧
      (∀ ls le x, IsLS K ls → ls ≤ x → x < le → le ≤ K.length →
        (∀ i, ls ≤ i → i < le → K[i]? ≠ some NL) → (K[le]? = some NL ∨ le = K.length) →
        (∃ y, K[x]? = some y ∧ isWs y = false) →
        ∀ d, ls ≤ d → d ≤ le → d < K.length → inAny F d = true →
          ∃ r, BlockRangeOf K pos pos r ∧ Rng.contains r d = true ∧
            ∃ p ∈ pos, ∃ cur ls' ip, firstLine K p.1 = some cur ∧ cur ≤ ls' ∧ findNextChar K ls' = some ip ∧
              r = lineRange ls' ip (tagColumn K p.1) (getIndentLen K cur - tagColumn K p.1)) := by
  intro K M pos
  unfold clean at h
  simp only [bind, Except.bind, pure, Except.pure] at h
  change BlockStyleK K (positions M 0) at hbs
  have hMdef : buildRemoveMarker cfg (bytesOf src) (parseSource src ds de) = M := rfl
  rw [hMdef] at h
  cases hrm : removeMarkers (bytesOf src) M with
  | error e => rw [hrm] at h; simp at h
  | ok removed =>
    rw [hrm] at h
    simp only at h
    cases hpos : getRemovedPos M with
    | error e => rw [hpos] at h; simp at h
    | ok pos' =>
      rw [hpos] at h
      simp only at h
      cases hf : format removed pos' with
      | error e => rw [hf] at h; simp at h
      | ok o =>
        rw [hf] at h
        simp only at h
        injection h with h
        subst h
        obtain ⟨hs, _⟩ := buildRemoveMarker_spec src ds de cfg hde
        have hremoved := C02.removed_eq src ds de cfg hde removed hrm
        have hpos' := removedPosAux_eq M 0 0 (blen src) hs (Nat.le_refl _)
        unfold getRemovedPos at hpos
        rw [hpos'] at hpos
        injection hpos with hpos
        change pos = pos' at hpos
        subst hpos
        obtain ⟨s1, hs1⟩ := deleteAll_wellFormed src _ removed hrm
        have hKeq : K = bytesOf s1 := by
          show minusRanges (bytesOf src) (extentsOfSource src ds de cfg) = _
          rw [← hremoved, hs1]
        have hplen : ∀ (ms : List Marker) (k : Nat), (positions ms k).length = ms.length := by
          intro ms; induction ms with
          | nil => intro k; rfl
          | cons m ms ih => intro k; simp [positions, ih]
        have hmapfst : pos.map (·.1) = positions M 0 := by
          show ((positions M 0).zip (M.map (·.pair))).map (·.1) = _
          rw [List.map_fst_zip]
          simp [hplen]
        rw [hs1] at hf
        obtain ⟨_, s2, hs2⟩ := format_wsSub s1 pos o hf
        obtain ⟨F, e1, e2, e3⟩ := c12_deleted s1 pos o
          (posSorted_zip M 0 0 (blen src) hs (Nat.le_refl _)).1
          (by rw [hmapfst, ← hKeq]; exact hbs) hf
        rw [← hKeq] at e1 e2 e3
        refine ⟨F, by rw [hs2, charsOf_bytesOf, ← hs2]; exact e1, e2, ?_⟩
        intro ls le x a1 a2 a3 a4 a5 a6 a7 d b1 b2 b3 b4
        obtain ⟨r, hr, hrd⟩ := e3 ls le x a1 a2 a3 a4 a5 a6 a7 d b1 b2 b3 b4
        refine ⟨r, hr, hrd, ?_⟩
        obtain ⟨p, hp, j, q, y, _, _, _, hmem⟩ := hr
        obtain ⟨cur, ls', ip, c1, c2, _, c4, c5, _⟩ := fmtBlockIndent_shape K p.1 q r hmem
        exact ⟨p, hp, cur, ls', ip, c1, c2, c4, c5⟩

/-! ### the exact set of deleted bytes on a non-blank line -/

/-- `blockLoop_shape` with the end of the line: the line's break lies before `endPos` -/
theorem blockLoop_shape_end (b : Bytes) (endPos t s fuel cur : Nat) :
    ∀ r ∈ blockLoop b endPos t s fuel cur,
      ∃ ls ip lb, cur ≤ ls ∧ (ls = cur ∨ (0 < ls ∧ b[ls - 1]? = some (.lead '\n'))) ∧
        findNextLB b ls false = some lb ∧ lb + 1 ≤ endPos ∧
        findNextChar b ls = some ip ∧ r = lineRange ls ip t s := by
  induction fuel generalizing cur with
  | zero => simp [blockLoop]
  | succ fuel ih =>
    intro r hr
    simp only [blockLoop] at hr
    split at hr
    · cases hlb : findNextLB b cur false with
      | none => rw [hlb] at hr; simp at hr
      | some lb =>
        rw [hlb] at hr
        simp only at hr
        split at hr
        · simp at hr
        · rename_i hend
          rw [List.mem_append] at hr
          rcases hr with hr | hr
          · cases hip : findNextChar b cur with
            | none => rw [hip] at hr; simp at hr
            | some ip =>
              rw [hip] at hr
              simp only at hr
              split at hr
              · simp only [List.mem_singleton] at hr
                subst hr
                exact ⟨cur, ip, lb, Nat.le_refl _, Or.inl rfl, hlb, by omega, hip, rfl⟩
              · simp at hr
          · obtain ⟨_, l1, _, l3, _⟩ := findNextLB_some _ cur lb false hlb
            obtain ⟨ls, ip, lb', h1, h0, h2, h3, h4, h5⟩ := ih (lb + 1) r hr
            refine ⟨ls, ip, lb', by omega, ?_, h2, h3, h4, h5⟩
            rcases h0 with h0 | h0
            · right; subst h0; exact ⟨by omega, by simpa using l3⟩
            · right; exact h0
    · simp at hr

theorem fmtBlockIndent_shape_end (b : Bytes) (startPos endPos : Nat) :
    ∀ r ∈ fmtBlockIndent b startPos endPos,
      ∃ cur ls ip lb, firstLine b startPos = some cur ∧ cur ≤ ls ∧
        (ls = cur ∨ (0 < ls ∧ b[ls - 1]? = some (.lead '\n'))) ∧ findNextLB b ls false = some lb ∧ lb + 1 ≤ endPos ∧
        findNextChar b ls = some ip ∧
        r = lineRange ls ip (tagColumn b startPos) (getIndentLen b cur - tagColumn b startPos) := by
  intro r hr
  unfold fmtBlockIndent at hr
  dsimp only at hr
  cases hf : (b.drop startPos).findIdx? (fun x => x == .lead '\n') with
  | none => rw [hf] at hr; simp at hr
  | some ofs =>
    rw [hf] at hr
    simp only at hr
    obtain ⟨ls, ip, lb, h1, h0, h2, h3, h4, h5⟩ := blockLoop_shape_end b endPos _ _ _ _ r hr
    exact ⟨startPos + ofs + 1, ls, ip, lb, by simp [firstLine, hf], h1, h0, h2, h3, h4, h5⟩

theorem firstLine_pos (b : Bytes) (p cur : Nat) (h : firstLine b p = some cur) :
    0 < cur ∧ b[cur - 1]? = some (.lead '\n') := by
  unfold firstLine at h
  cases hf : (b.drop p).findIdx? (fun x => x == .lead '\n') with
  | none => rw [hf] at h; simp at h
  | some ofs =>
    rw [hf] at h
    simp only [Option.map_some, Option.some.injEq] at h
    subst h
    refine ⟨by omega, ?_⟩
    have h1 := List.findIdx?_eq_some_iff_getElem.mp hf
    obtain ⟨hlt, hx, _⟩ := h1
    simp only [List.getElem_drop, beq_iff_eq] at hx
    rw [show p + ofs + 1 - 1 = p + ofs by omega, List.getElem?_eq_getElem (by simpa using (by simp at hlt; omega)), hx]

/-- C12, one line at a time: on a non-blank line of the text after removal the formatting pass deletes exactly the
    union of the column intervals `lineRange ls ip (tag column) (first line's indent - tag column)` of the unwrapped
    blocks whose body contains the line -/
theorem c12_line_exact (src ds de : List Char) (cfg : Cfg) (out : List Char) (hde : de ≠ [])
    (hbs : BlockStyleK (minusRanges (bytesOf src) (extentsOfSource src ds de cfg))
      (positions (buildRemoveMarker cfg (bytesOf src) (parseSource src ds de)) 0))
    (h : clean src ds de cfg = .ok out) :
    let K := minusRanges (bytesOf src) (extentsOfSource src ds de cfg)
    let M := buildRemoveMarker cfg (bytesOf src) (parseSource src ds de)
    let pos := (positions M 0).zip (M.map (·.pair))
    ∃ F, bytesOf out = minusFrom K 0 F ∧
      ∀ ls le x, IsLS K ls → ls ≤ x → x < le → le ≤ K.length →
        (∀ i, ls ≤ i → i < le → K[i]? ≠ some NL) → (K[le]? = some NL ∨ le = K.length) →
        (∃ y, K[x]? = some y ∧ isWs y = false) →
        ∀ d, ls ≤ d → d ≤ le → d < K.length →
          (inAny F d = true ↔
            ∃ p ∈ pos, ∃ j q y cur ip, p.2 = some j ∧ pos[j]? = some (q, y) ∧ p.1 < q ∧
              firstLine K p.1 = some cur ∧ cur ≤ ls ∧ le + 1 ≤ q ∧ findNextChar K ls = some ip ∧
              Rng.contains (lineRange ls ip (tagColumn K p.1) (getIndentLen K cur - tagColumn K p.1)) d = true) := by
  intro K M pos
  obtain ⟨F, e1, e2, e3⟩ := c12_document src ds de cfg out hde hbs h
  refine ⟨F, e1, ?_⟩
  intro ls le x a1 a2 a3 a4 a5 a6 a7 d b1 b2 b3
  have hq_le : ∀ (j q : Nat) (y : Option Nat), pos[j]? = some (q, y) → q ≤ K.length := by
    intro j q y hj
    have hmem : (q, y) ∈ pos := List.mem_of_getElem? hj
    have : q ∈ positions M 0 := (List.of_mem_zip hmem).1
    exact (hbs q this).2.1
  constructor
  · intro hd
    obtain ⟨r, hr, hrd, _⟩ := e3 ls le x a1 a2 a3 a4 a5 a6 a7 d b1 b2 b3 hd
    obtain ⟨p, hp, j, q, y, c1, c2, c3, hmem⟩ := hr
    obtain ⟨cur, ls', ip, lb, f1, f2, f0, f3, f4, f5, f6⟩ := fmtBlockIndent_shape_end K p.1 q r hmem
    obtain ⟨g0, g1, g2, g3, g4, _⟩ := findNextLB_some _ _ _ _ f3
    obtain ⟨k0, k1, k2, _, k4⟩ := findNextChar_some _ _ _ f5
    subst f6
    simp only [Rng.contains, lineRange, Bool.and_eq_true] at hrd
    have hrd := And.intro (of_decide_eq_true hrd.1) (of_decide_eq_true hrd.2)
    have hd1 : ls' ≤ d := by omega
    have hd2 : d < ip := by omega
    have hnb : ∀ i, ls' ≤ i → i < ip → K[i]? ≠ some NL := by
      intro i h1 h2 hc
      obtain ⟨z, hz, hzs⟩ := k4 i h1 h2
      rw [hc] at hz
      injection hz with hz
      subst hz
      rcases hzs with h | h | h <;> simp [NL] at h
    obtain ⟨hcur0, hcurS⟩ := firstLine_pos K p.1 cur f1
    have hls'S : K[ls' - 1]? = some NL := by
      rcases f0 with f0 | f0
      · rw [f0]; exact hcurS
      · exact f0.2
    -- both `ls` and `ls'` start the line of `d`
    have hd3 : d < le := by
      rcases Nat.lt_or_ge d le with h | h
      · exact h
      · exfalso
        have : d = le := by omega
        subst this
        rcases a6 with a6 | a6
        · exact hnb d hd1 hd2 a6
        · omega
    have hlseq : ls' = ls := by
      rcases Nat.lt_trichotomy ls' ls with hlt | heq | hgt
      · exfalso
        rcases a1 with a1 | a1
        · omega
        · exact hnb (ls - 1) (by omega) (by omega) a1
      · exact heq
      · exfalso
        exact a5 (ls' - 1) (by omega) (by omega) hls'S
    subst hlseq
    have hlbeq : lb = le := by
      rcases Nat.lt_trichotomy lb le with hlt | heq | hgt
      · exact absurd g3 (a5 lb g1 hlt)
      · exact heq
      · exfalso
        rcases a6 with a6 | a6
        · exact g4 le (by omega) hgt a6
        · omega
    subst hlbeq
    refine ⟨p, hp, j, q, y, cur, ip, c1, c2, c3, f1, f2, f4, f5, ?_⟩
    simp only [Rng.contains, lineRange, Bool.and_eq_true]
    exact ⟨decide_eq_true hrd.1, decide_eq_true hrd.2⟩
  · rintro ⟨p, hp, j, q, y, cur, ip, c1, c2, c3, f1, f2, f4, f5, hrd⟩
    apply e2 _ ⟨p, hp, j, q, y, c1, c2, c3, ?_⟩ d hrd
    obtain ⟨hcur0, hcurS⟩ := firstLine_pos K p.1 cur f1
    have hqle := hq_le j q y c2
    have hleNL : K[le]? = some NL := by
      rcases a6 with a6 | a6
      · exact a6
      · omega
    apply fmtBlockIndent_complete K p.1 q cur ls le ip f1 f2 ?_ (by omega) hleNL a5 f4 f5 ?_
    · by_cases hc : ls = cur
      · exact Or.inl hc
      · right
        rcases a1 with a1 | a1
        · omega
        · exact ⟨a1, by omega⟩
    · simp only [Rng.contains, lineRange, Bool.and_eq_true] at hrd
      have hrd := And.intro (of_decide_eq_true hrd.1) (of_decide_eq_true hrd.2)
      simp only [lineRange]
      omega

/-! Non-vacuity: an unwrap-block on the second line, its body indented deeper than the tags. -/
def uwSrc : List Char :=
  "a\n  <rm name='a' unwrap-block>\n  if {\n      x\n        y\n  }\n  </rm>\nb".toList
def uwCfg : Cfg := ⟨"tl".toList, "rm".toList, 1577836800, 0, "+00:00".toList, ["a".toList]⟩
def uwK : Bytes := minusRanges (bytesOf uwSrc) (extentsOfSource uwSrc "<".toList ">".toList uwCfg)
def uwM : List Marker := buildRemoveMarker uwCfg (bytesOf uwSrc) (parseSource uwSrc "<".toList ">".toList)

example : blockStyleB uwK (positions uwM 0) = true := by decide +kernel
example : (clean uwSrc "<".toList ">".toList uwCfg).toOption = some "a\n  x\n    y\nb".toList := by decide +kernel
example : (positions uwM 0).zip (uwM.map (·.pair)) = [(4, some 1), (23, some 0)] := by decide +kernel
example : fmtBlockIndent uwK 4 23 = [(7, 11), (15, 19)] := by decide +kernel

end Chiritori.Props.C12
