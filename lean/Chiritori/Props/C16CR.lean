import Chiritori.Props.C16
/-
  C16, last clause, whole list, for texts with carriage returns: the statement of `pretty_vs_json` under the two
  premises of `json_block_is_pretty_block_cr`, item by item.
-/
namespace Chiritori.Props.C16
open Chiritori

/-- the premises of the single-item statement for the region of one marker -/
def CrOK (s : List Char) (lm : List Nat) (m : Marker) : Prop :=
  let lr := (findLine lm m.start, findLine lm (m.stop - 1))
  (charsOf (geomOf (bytesOf s) m.start m.stop (some lr)).pre).getLast? ≠ some '\r' ∧
  ∀ l ∈ rustLines (charsOf (geomOf (bytesOf s) m.start m.stop (some lr)).mid), l.getLast? ≠ some '\r'

theorem pretty_vs_json_cr (s : List Char) (lm : List Nat) (hesc : ∀ c ∈ s, c ≠ '\x1b') :
    ∀ (ms : List (Marker × Bool)) (idx : Nat), Renderable (bytesOf s) ms → (∀ m ∈ ms, CrOK s lm m.1) →
    ∃ ys items, prettyItems (bytesOf s) lm ms idx = .ok (prettyOf idx ((ms.map (·.2)).zip ys)) ∧
      buildList (bytesOf s) lm ms = .ok items ∧ ys.length = ms.length ∧
      ErL ys (items.map (·.block)) ∧
      items.map (·.lineRange) = ms.map (fun m => (findLine lm m.1.start, findLine lm (m.1.stop - 1))) ∧
      items.map (·.ready) = ms.map (·.2) ∧
      ys.map stripAnsi = items.map (·.block)
  | [], idx, _, _ => ⟨[], [], rfl, rfl, rfl, trivial, rfl, rfl, rfl⟩
  | (m, f) :: rest, idx, h, hc => by
    obtain ⟨g1, g2, g3⟩ := h (m, f) (by simp)
    obtain ⟨c1, c2⟩ := hc (m, f) (by simp)
    obtain ⟨y, x, hy, hx, her, hst⟩ := json_block_is_pretty_block_cr s m.start m.stop f
      (findLine lm m.start, findLine lm (m.stop - 1)) g1 g2 g3 hesc c1 c2
    obtain ⟨ys, items, p1, p2, p3, p4, p5, p6, p7⟩ := pretty_vs_json_cr s lm hesc rest (idx + 1)
      (fun x hx => h x (by simp [hx])) (fun x hx => hc x (by simp [hx]))
    refine ⟨y :: ys, ⟨(findLine lm m.start, findLine lm (m.stop - 1)), x, f⟩ :: items, ?_, ?_, by simp [p3], ⟨her, p4⟩,
      by simp [p5], by simp [p6], ?_⟩
    · simp only [prettyItems, getLineRange_ok lm _ _ g3, hy, p1]
      simp only [List.map_cons, List.zip_cons_cons, prettyOf]
      unfold heading
      simp only [List.append_assoc]
    · simp only [buildList, getLineRange_ok lm _ _ g3, hx, p2]
    · simp only [List.map_cons, hst, p7]

end Chiritori.Props.C16
