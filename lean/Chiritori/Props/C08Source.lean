import Chiritori.Props.C08Tail
/-
  C08 as a statement about a SOURCE (not about a piece list somebody hands in): `decompose` cuts a source into pieces and
  a last stretch the way the textbook scan would (leftmost start delimiter, one body character, first end delimiter
  behind it), `decompose_render` says the cut loses nothing, and `fitsSource` - a Boolean function of the source and the
  delimiters - is `wideOK2` of that cut.  `c08_source`: wherever `fitsSource` is true, the tokenizer's kinds and values
  are those of the textbook scan.  The region of known finding D4 in the check of C08 is the complement of this
  predicate (for multi-character delimiters).
-/
namespace Chiritori.Props.C08
open Chiritori Chiritori.Spec

def decompose (ds de : List Char) : Nat → List Char → List Piece × List Char
  | 0, s => ([], s)
  | fuel + 1, s =>
    match findSub ds s with
    | none => ([], s)
    | some i =>
      match s.drop (i + ds.length) with
      | [] => ([], s)
      | b0 :: body =>
        match findSub de body with
        | none => ([], s)
        | some j =>
          ((.text (s.take i) :: .tag b0 (body.take j) :: (decompose ds de fuel (body.drop (j + de.length))).1),
            (decompose ds de fuel (body.drop (j + de.length))).2)

theorem findSub_spec (pat : List Char) : ∀ (s : List Char) (i : Nat), findSub pat s = some i →
    s = s.take i ++ (pat ++ s.drop (i + pat.length))
  | [], i, h => by
    simp only [findSub] at h
    split at h
    · rename_i hp
      injection h with h
      subst h
      have : pat = [] := by simpa using hp
      simp [this]
    · cases h
  | c :: cs, i, h => by
    simp only [findSub] at h
    split at h
    · rename_i hp
      injection h with h
      subst h
      rw [List.isPrefixOf_iff_prefix] at hp
      obtain ⟨t, ht⟩ := hp
      simp only [List.take_zero, List.nil_append, Nat.zero_add]
      rw [← ht]
      simp
    · cases hf : findSub pat cs with
      | none => rw [hf] at h; cases h
      | some k =>
        rw [hf] at h
        simp only [Option.map_some, Option.some.injEq] at h
        subst h
        have ih := findSub_spec pat cs k hf
        simp only [List.take_succ_cons, List.cons_append]
        rw [show k + 1 + pat.length = (k + pat.length) + 1 by omega, List.drop_succ_cons]
        exact congrArg _ ih

theorem decompose_render (ds de : List Char) : ∀ (fuel : Nat) (s : List Char),
    renderAll ds de (decompose ds de fuel s).1 ++ (decompose ds de fuel s).2 = s
  | 0, s => by simp [decompose, renderAll]
  | fuel + 1, s => by
    simp only [decompose]
    cases hf : findSub ds s with
    | none => simp [renderAll]
    | some i =>
      simp only
      cases hd : s.drop (i + ds.length) with
      | nil => simp [renderAll]
      | cons b0 body =>
        simp only
        cases hj : findSub de body with
        | none => simp [renderAll]
        | some j =>
          simp only [renderAll, Piece.render]
          have ih := decompose_render ds de fuel (body.drop (j + de.length))
          have e1 := findSub_spec ds s i hf
          have e2 := findSub_spec de body j hj
          rw [hd] at e1
          conv => rhs; rw [e1, e2]
          simp only [List.append_assoc, List.cons_append]
          rw [ih]

/-- the source fits the delimiters: its textbook cut into pieces and a last stretch does -/
def fitsSource (ds de src : List Char) : Bool :=
  wideOK2 ds de (decompose ds de src.length src).2 (decompose ds de src.length src).1 []

/-- C08 for every source that fits the delimiters -/
theorem c08_source (d0 : Char) (dr : List Char) (e0 : Char) (er : List Char) (src : List Char)
    (h : fitsSource (d0 :: dr) (e0 :: er) src = true) :
    c08Holds src (d0 :: dr) (e0 :: er) (tokenize src (d0 :: dr) (e0 :: er)) = true := by
  have := c08_wide_tail d0 dr e0 er _ _ h
  rw [decompose_render] at this
  exact this

/-! instances: real-looking sources fit; the D4 witnesses do not -/
set_option maxRecDepth 32768 in
example : fitsSource "<!-- <".toList "> -->".toList
      "<!DOCTYPE html>\n<div>\n  <!-- plain -->\n  <!-- <time-limited to='2024/01/01 00:00:00'> -->\n  <p>a < b</p>\n  <!-- </time-limited> -->\n</div>\n".toList = true ∧
    fitsSource "/* <".toList "> */".toList "// x\nlet y = a / b; /* note */\n/* <removal-marker name='f'> */\nold();\n/* </removal-marker> */\n".toList = true ∧
    fitsSource "<!-- <".toList "> -->".toList "cut off <!-- <time-limited to='20".toList = true ∧
    fitsSource "/* <".toList "> */".toList "//* <rm a> */x/* </rm> */".toList = false ∧
    fitsSource "<!-- <".toList "> -->".toList "<!-- <t>> -->".toList = false ∧
    fitsSource "aab".toList "bba".toList "aaabxbba".toList = false := by decide +kernel

end Chiritori.Props.C08
