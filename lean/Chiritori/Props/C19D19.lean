import Chiritori.Props.C19
/-
  The known finding D19, replayed in the kernel: idempotence fails when an unwrap-block takes the opening tag of another
  element away with its wrapper line while a stray opening tag of the same name stands in front of the block - the
  stranded closing tag then pairs with the stray opening tag in the output, and a second run removes what the first
  run had kept.  (Found while looking for the hypotheses an idempotence proof for unwrapped blocks would need.)
-/
namespace Chiritori.Props.C19
open Chiritori

def d19 : List Char :=
  "<rm name='a'>\nx\n<rm name='a' unwrap-block>\n{ <rm name='b'>\n  body\n  </rm>\n  more\n}\n</rm>\nend\n".toList

theorem c19_negation_D19 :
    cleanA d19 0 = "<rm name='a'>\nx\nbody\n</rm>\nmore\nend\n".toList ∧
    cleanA (cleanA d19 0) 0 = "more\nend\n".toList := by decide +kernel

/-- the second form: no tag on a wrapper line, but an unclosed ready opening tag inside the body of the unwrapped block and
    a stray closing tag behind it - the block's closing tag used to cut the opening tag off -/
def d19b : List Char :=
  "<tl to='2000-01-01 00:00:00' unwrap-block>\n{\n<rm name='a'>\nbody\n}\n</tl>\nx\n</rm>\nend\n".toList

theorem c19_negation_D19b :
    cleanA d19b 1577836800 = "<rm name='a'>\nbody\nx\n</rm>\nend\n".toList ∧
    cleanA (cleanA d19b 1577836800) 1577836800 = "end\n".toList := by decide +kernel

end Chiritori.Props.C19
