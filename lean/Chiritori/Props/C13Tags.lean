import Chiritori.Props.C13Entry
/-
  The block-style hypothesis of C12 / C13, derived from the tags.

  `blockStyle_of_blockDoc` (Props/C13Entry.lean) needs the *removed ranges* to be block-style (`BlockMarkers`).  Here
  that is derived from a condition on the *tags of the ready elements* (`blockMarkers_of_tags`, `blockStyle_of_tags`):
  the opening tag begins behind blanks only on a line that is not the first (or at offset 0 of the text), and does not
  itself begin with a line break; the closing tag ends in front of a line break or at the end of the text; for an unwrap-block that can be
  unwrapped, the wrapper line in front of the closing tag is not empty.  The removed ranges are unions of extents of
  ready elements, so each begins where an extent begins and ends where an extent ends (`mergeMarkers_ends`,
  `collect_ends`).
-/
namespace Chiritori.Props.C13
open Chiritori Chiritori.Spec

/-! ### where the merged markers begin and end -/

mutual
def rStarts : List RTree → List Nat
  | [] => []
  | t :: ts => rtStarts t ++ rStarts ts
def rtStarts : RTree → List Nat
  | .node r p ch => (r.1 :: (match p with | some t => [t.1] | none => [])) ++ rStarts ch
end

mutual
def rStops : List RTree → List Nat
  | [] => []
  | t :: ts => rtStops t ++ rStops ts
def rtStops : RTree → List Nat
  | .node r p ch => (r.2 :: (match p with | some t => [t.2] | none => [])) ++ rStops ch
end

theorem mergeChild_ends : ∀ (cs : List Marker) (m : Rng),
    ((mergeChildMarkers cs m).2.1 = m.1 ∨ ∃ c ∈ cs, (mergeChildMarkers cs m).2.1 = c.start) ∧
    ((mergeChildMarkers cs m).2.2 = m.2 ∨ ∃ c ∈ cs, (mergeChildMarkers cs m).2.2 = c.stop)
  | [], m => by simp [mergeChildMarkers]
  | c :: cs, m => by
    simp only [mergeChildMarkers]
    split
    · obtain ⟨i1, i2⟩ := mergeChild_ends cs (min m.1 c.start, max m.2 c.stop)
      simp only
      constructor
      · rcases i1 with i1 | ⟨c', hc', i1⟩
        · simp only at i1
          rcases Nat.le_total m.1 c.start with hle | hle
          · left; rw [i1]; exact Nat.min_eq_left hle
          · right; exact ⟨c, by simp, by rw [i1]; exact Nat.min_eq_right hle⟩
        · right; exact ⟨c', by simp [hc'], i1⟩
      · rcases i2 with i2 | ⟨c', hc', i2⟩
        · simp only at i2
          rcases Nat.le_total m.2 c.stop with hle | hle
          · right; exact ⟨c, by simp, by rw [i2]; exact Nat.max_eq_right hle⟩
          · left; rw [i2]; exact Nat.max_eq_left hle
        · right; exact ⟨c', by simp [hc'], i2⟩
    · simp

mutual
theorem mergeMarkers_ends : ∀ (ts : List RTree) (acc : List Marker), ∀ m ∈ mergeMarkers ts acc,
    m ∈ acc ∨ (m.start ∈ rStarts ts ∧ m.stop ∈ rStops ts)
  | [], acc, m, hm => by simp only [mergeMarkers] at hm; exact Or.inl hm
  | t :: ts, acc, m, hm => by
    simp only [mergeMarkers] at hm
    rcases mergeMarkers_ends ts (mergeTree t acc) m hm with h | h
    · rcases mergeTree_ends t acc m h with h' | h'
      · exact Or.inl h'
      · exact Or.inr ⟨by simp [rStarts, h'.1], by simp [rStops, h'.2]⟩
    · exact Or.inr ⟨by simp [rStarts, h.1], by simp [rStops, h.2]⟩
theorem mergeTree_ends : ∀ (t : RTree) (acc : List Marker), ∀ m ∈ mergeTree t acc,
    m ∈ acc ∨ (m.start ∈ rtStarts t ∧ m.stop ∈ rtStops t)
  | .node range pair children, acc, m, hm => by
    have hcm : ∀ c ∈ mergeMarkers children [], c.start ∈ rStarts children ∧ c.stop ∈ rStops children := by
      intro c hc
      rcases mergeMarkers_ends children [] c hc with h | h
      · cases h
      · exact h
    obtain ⟨m1, m2⟩ := mergeChild_ends (mergeMarkers children []) range
    have hs1 : (mergeChildMarkers (mergeMarkers children []) range).2.1 ∈ rtStarts (.node range pair children) := by
      rcases m1 with h | ⟨c, hc, h⟩
      · rw [h]; simp [rtStarts]
      · rw [h]; simp [rtStarts, (hcm c hc).1]
    have hs2 : (mergeChildMarkers (mergeMarkers children []) range).2.2 ∈ rtStops (.node range pair children) := by
      rcases m2 with h | ⟨c, hc, h⟩
      · rw [h]; simp [rtStops]
      · rw [h]; simp [rtStops, (hcm c hc).2]
    simp only [mergeTree] at hm
    cases pair with
    | none =>
      simp only [List.mem_append, List.mem_singleton] at hm
      rcases hm with h | h
      · exact Or.inl h
      · subst h; exact Or.inr ⟨hs1, hs2⟩
    | some endRange =>
      simp only at hm
      have hsub : ∀ c ∈ (List.drop (mergeChildMarkers (mergeMarkers children []) range).1 (mergeMarkers children [])).reverse,
          c ∈ mergeMarkers children [] := by
        intro c hc
        exact List.mem_of_mem_drop (List.mem_reverse.mp hc)
      obtain ⟨e1, e2⟩ := mergeChild_ends
        (List.drop (mergeChildMarkers (mergeMarkers children []) range).1 (mergeMarkers children [])).reverse endRange
      have he1 : (mergeChildMarkers (List.drop (mergeChildMarkers (mergeMarkers children []) range).1
          (mergeMarkers children [])).reverse endRange).2.1 ∈ rtStarts (.node range (some endRange) children) := by
        rcases e1 with h | ⟨c, hc, h⟩
        · rw [h]; simp [rtStarts]
        · rw [h]; simp [rtStarts, (hcm c (hsub c hc)).1]
      have he2 : (mergeChildMarkers (List.drop (mergeChildMarkers (mergeMarkers children []) range).1
          (mergeMarkers children [])).reverse endRange).2.2 ∈ rtStops (.node range (some endRange) children) := by
        rcases e2 with h | ⟨c, hc, h⟩
        · rw [h]; simp [rtStops]
        · rw [h]; simp [rtStops, (hcm c (hsub c hc)).2]
      split at hm
      · simp only [List.mem_append, List.mem_singleton] at hm
        rcases hm with h | h
        · exact Or.inl h
        · subst h; exact Or.inr ⟨hs1, he2⟩
      · simp only [List.mem_append, List.mem_singleton, List.mem_map] at hm
        rcases hm with ((h | h) | ⟨c, hc, h⟩) | h
        · exact Or.inl h
        · subst h; exact Or.inr ⟨hs1, hs2⟩
        · subst h
          have hc' : c ∈ mergeMarkers children [] := List.mem_of_mem_drop (List.mem_of_mem_take hc)
          exact Or.inr ⟨by simp [rebase_start, rtStarts, (hcm c hc').1], by simp [rebase_stop, rtStops, (hcm c hc').2]⟩
        · subst h; exact Or.inr ⟨he1, he2⟩
end

/-! ### the collected ranges are extents of ready elements -/

mutual
theorem collect_ends (cfg : Cfg) (b : Bytes) : ∀ (parts : List Part) (lo hi : Nat),
    BSpan (flattenParts parts) lo hi → hi ≤ b.length →
    (∀ x ∈ rStarts (collect cfg b false parts).1, ∃ r ∈ extentsOfParts cfg b parts, r.1 = x) ∧
    (∀ x ∈ rStops (collect cfg b false parts).1, ∃ r ∈ extentsOfParts cfg b parts, r.2 = x)
  | [], _, _, _, _ => by simp [collect, rStarts, rStops]
  | p :: ps, lo, hi, hs, hlen => by
    simp only [flattenParts, BSpan_append] at hs
    obtain ⟨mid, hs1, hs2⟩ := hs
    have hmid := BSpan_le _ mid hi hs2
    obtain ⟨a1, a2⟩ := collectPart_ends cfg b p lo mid hs1 (by omega)
    obtain ⟨b1, b2⟩ := collect_ends cfg b ps mid hi hs2 hlen
    have hst : ∀ (a c : List RTree), rStarts (a ++ c) = rStarts a ++ rStarts c := by
      intro a c; induction a with
      | nil => simp [rStarts]
      | cons t ts ih => simp [rStarts, ih]
    have hsp : ∀ (a c : List RTree), rStops (a ++ c) = rStops a ++ rStops c := by
      intro a c; induction a with
      | nil => simp [rStops]
      | cons t ts ih => simp [rStops, ih]
    simp only [collect, extentsOfParts, hst, hsp]
    constructor
    · intro x hx
      rcases List.mem_append.mp hx with h | h
      · obtain ⟨r, hr, e⟩ := a1 x h; exact ⟨r, by simp [hr], e⟩
      · obtain ⟨r, hr, e⟩ := b1 x h; exact ⟨r, by simp [hr], e⟩
    · intro x hx
      rcases List.mem_append.mp hx with h | h
      · obtain ⟨r, hr, e⟩ := a2 x h; exact ⟨r, by simp [hr], e⟩
      · obtain ⟨r, hr, e⟩ := b2 x h; exact ⟨r, by simp [hr], e⟩
theorem collectPart_ends (cfg : Cfg) (b : Bytes) : ∀ (p : Part) (lo hi : Nat),
    BSpan (flattenPart p) lo hi → hi ≤ b.length →
    (∀ x ∈ rStarts (collectPart cfg b false p).1, ∃ r ∈ extentsOfPart cfg b p, r.1 = x) ∧
    (∀ x ∈ rStops (collectPart cfg b false p).1, ∃ r ∈ extentsOfPart cfg b p, r.2 = x)
  | .text _, _, _, _, _ => by simp [collectPart, rStarts, rStops]
  | .element el st en ch, lo, hi, hs, hlen => by
    simp only [flattenPart, List.cons_append, BSpan, BSpan_append] at hs
    obtain ⟨hst, hst2, mid, hch, hen1, hen2, hen3⟩ := hs
    have hmid := BSpan_le _ st.bstop mid hch
    obtain ⟨c1, c2⟩ := collect_ends cfg b ch st.bstop mid hch (by omega)
    have hext := extentOf_eq_createRange b el st en (by omega) (by omega)
    simp only [collectPart, extentsOfPart]
    cases her : elementRange cfg b false el st en with
    | none =>
      simp only
      constructor
      · intro x hx; obtain ⟨r, hr, e⟩ := c1 x hx; exact ⟨r, by simp [hr], e⟩
      · intro x hx; obtain ⟨r, hr, e⟩ := c2 x hx; exact ⟨r, by simp [hr], e⟩
    | some rpb =>
      obtain ⟨r, p, flag⟩ := rpb
      have hflag := elementRange_false_flag cfg b el st en r p flag her
      subst hflag
      obtain ⟨hc, hne⟩ := (Props.C06.ready_iff cfg b false el st en).mp ⟨r, p, her⟩
      have hcr : createRange b el st en = (r, p) := by
        unfold elementRange at her
        cases hs : isSkip el <;> rw [hs] at her
        · cases he : evaluatorFor cfg el.name <;> rw [he] at her
          · simp at her
          · rename_i ev
            cases hv : ev el <;> simp [hv] at her
            cases hcc : createRange b el st en with
            | mk r' p' =>
              rw [hcc] at her
              simp only at her
              obtain ⟨_, e1, e2⟩ := her
              rw [e1, e2]
        · simp at her
      rw [hcr] at hne
      simp only
      rw [if_pos hc, hext, hcr]
      cases p with
      | none =>
        simp only [hne, Bool.false_eq_true, ite_false]
        constructor
        · intro x hx
          simp only [rStarts, rtStarts, List.append_nil, List.cons_append, List.nil_append, List.mem_cons] at hx
          rcases hx with h | h
          · exact ⟨r, by simp, h.symm⟩
          · obtain ⟨r', hr', e⟩ := c1 x h; exact ⟨r', by simp [hr'], e⟩
        · intro x hx
          simp only [rStops, rtStops, List.append_nil, List.cons_append, List.nil_append, List.mem_cons] at hx
          rcases hx with h | h
          · exact ⟨r, by simp, h.symm⟩
          · obtain ⟨r', hr', e⟩ := c2 x h; exact ⟨r', by simp [hr'], e⟩
      | some t =>
        simp only
        constructor
        · intro x hx
          simp only [rStarts, rtStarts, List.append_nil, List.cons_append, List.nil_append, List.mem_cons] at hx
          rcases hx with h | h | h
          · exact ⟨r, by simp, h.symm⟩
          · exact ⟨t, by simp, h.symm⟩
          · obtain ⟨r', hr', e⟩ := c1 x h; exact ⟨r', by simp [hr'], e⟩
        · intro x hx
          simp only [rStops, rtStops, List.append_nil, List.cons_append, List.nil_append, List.mem_cons] at hx
          rcases hx with h | h | h
          · exact ⟨r, by simp, h.symm⟩
          · exact ⟨t, by simp, h.symm⟩
          · obtain ⟨r', hr', e⟩ := c2 x h; exact ⟨r', by simp [hr'], e⟩
end

/-! ### block-style ranges from block-style extents, and from block-style tags -/

/-- a position behind blanks only, on a line that is not the first (or at offset 0), that is not a line break -/
def StartOK (b : Bytes) (x : Nat) : Prop :=
  b[x]? ≠ some NL ∧ ∃ u, u ≤ x ∧ ((0 < u ∧ b[u - 1]? = some NL) ∨ (u = 0 ∧ x = 0)) ∧
    ∀ i, u ≤ i → i < x → ∃ y, b[i]? = some y ∧ isBlankByte y

/-- a position in front of a line break, or the end of the text -/
def StopOK (b : Bytes) (y : Nat) : Prop := b[y]? = some NL ∨ y = b.length

theorem blockMarkers_of_extents (src ds de : List Char) (cfg : Cfg) (hde : de ≠ [])
    (h : ∀ r ∈ extentsOfSource src ds de cfg, StartOK (bytesOf src) r.1 ∧ StopOK (bytesOf src) r.2) :
    BlockMarkers (bytesOf src) (buildRemoveMarker cfg (bytesOf src) (parseSource src ds de)) := by
  obtain ⟨hok, _⟩ := tokenize_ok src ds de hde
  have hfl : flattenParts (parseSource src ds de) = tokenize src ds de := parse_flatten ds de _
  have hspan : BSpan (flattenParts (parseSource src ds de)) 0 (blen src) := by
    have := BSpan_of_chain _ 0 0 hok.chain
    rw [hok.flatEq, Nat.zero_add] at this
    rw [hfl]; exact this
  obtain ⟨e1, e2⟩ := collect_ends cfg (bytesOf src) (parseSource src ds de) 0 (blen src) hspan (by simp)
  intro m hm
  unfold buildRemoveMarker at hm
  rcases mergeMarkers_ends _ [] m hm with h0 | ⟨h1, h2⟩
  · cases h0
  · obtain ⟨r1, hr1, q1⟩ := e1 _ h1
    obtain ⟨r2, hr2, q2⟩ := e2 _ h2
    unfold extentsOfSource at h
    rw [readyExtents_eq] at h
    have s1 := (h r1 hr1).1
    have s2 := (h r2 hr2).2
    rw [q1] at s1
    rw [q2] at s2
    exact ⟨s2, s1.1, s1.2⟩

/-- the line breaks around the two wrapper parts -/
theorem unwrapParts_nl (b : Bytes) (st en : Token) (h t : Rng) (hu : unwrapParts b st en = some (h, t)) :
    b[h.2]? = some NL ∧ 0 < t.1 ∧ b[t.1 - 1]? = some NL := by
  unfold unwrapParts at hu
  dsimp only at hu
  cases hp1 : (lineBreaks b).find? (fun p => decide (p ≥ st.bstop)) with
  | none => rw [hp1] at hu; simp at hu
  | some p1 =>
    rw [hp1] at hu
    simp only at hu
    cases hp2 : (lineBreaks b).find? (fun p => decide (p > p1)) with
    | none => rw [hp2] at hu; simp at hu
    | some p2 =>
      rw [hp2] at hu
      simp only at hu
      cases hq1 : ((lineBreaks b).filter (fun p => decide (p < en.bstart ∧ p ≥ 1))).getLast? with
      | none => rw [hq1] at hu; simp at hu
      | some q1 =>
        rw [hq1] at hu
        simp only at hu
        cases hq2 : ((lineBreaks b).filter (fun p => decide (p < q1 ∧ p ≥ 1))).getLast? with
        | none => rw [hq2] at hu; simp at hu
        | some q2 =>
          rw [hq2] at hu
          simp only at hu
          have f2 := (mem_lineBreaks b p2).mp (List.mem_of_find?_eq_some hp2)
          have f4 := (mem_lineBreaks b q2).mp (List.mem_filter.mp (List.mem_of_getLast? hq2)).1
          by_cases hv : q2 ≥ p2
          · rw [if_pos hv] at hu
            injection hu with hu
            injection hu with hu1 hu2
            subst hu1; subst hu2
            exact ⟨f2, by simp, by simpa using f4⟩
          · rw [if_neg hv] at hu; simp at hu

/-- The tags of the ready elements stand block-style: the removed ranges do. -/
theorem blockMarkers_of_tags (src ds de : List Char) (cfg : Cfg) (hde : de ≠ [])
    (h : ∀ e ∈ elementsOf (parseSource src ds de), conditionHolds cfg e.1 = true →
      StartOK (bytesOf src) e.2.1.bstart ∧ StopOK (bytesOf src) e.2.2.bstop ∧
      (hasAttr e.1 "unwrap-block" = true →
        ∀ hd tl, unwrapParts (bytesOf src) e.2.1 e.2.2 = some (hd, tl) → (bytesOf src)[tl.1]? ≠ some NL)) :
    BlockMarkers (bytesOf src) (buildRemoveMarker cfg (bytesOf src) (parseSource src ds de)) := by
  apply blockMarkers_of_extents src ds de cfg hde
  intro r hr
  unfold extentsOfSource readyExtents at hr
  obtain ⟨e, he, hre⟩ := List.mem_flatMap.mp hr
  obtain ⟨el, st, en⟩ := e
  simp only at hre
  by_cases hc : conditionHolds cfg el = true
  · rw [if_pos hc] at hre
    obtain ⟨g1, g2, g3⟩ := h (el, st, en) he hc
    simp only at g1 g2 g3
    unfold extentOf at hre
    split at hre
    · rename_i hua
      cases hu : unwrapParts (bytesOf src) st en with
      | none => rw [hu] at hre; simp at hre
      | some ht =>
        obtain ⟨hd, tl⟩ := ht
        rw [hu] at hre
        simp only [List.mem_cons, List.not_mem_nil, or_false] at hre
        obtain ⟨n1, n2, n3⟩ := unwrapParts_nl _ st en hd tl hu
        obtain ⟨q1, _, _, _, q5⟩ := unwrapParts_geo _ st en hd tl hu
        rcases hre with rfl | rfl
        · exact ⟨by rw [q1]; exact g1, Or.inl n1⟩
        · refine ⟨⟨g3 hua hd r hu, r.1, Nat.le_refl _, Or.inl ⟨n2, n3⟩, ?_⟩, by rw [q5]; exact g2⟩
          intro i h1 h2; omega
    · split at hre
      · simp only [List.mem_cons, List.not_mem_nil, or_false] at hre
        subst hre
        exact ⟨g1, g2⟩
      · cases hre
  · rw [if_neg hc] at hre; cases hre

/-- ... and so every seam of the text after removal is block-style: the hypothesis of `c12_line_exact`, `c13_lines`
    and `c13_blank_count`, from the tags. -/
theorem blockStyle_of_tags (src ds de : List Char) (cfg : Cfg) (hde : de ≠ [])
    (h : ∀ e ∈ elementsOf (parseSource src ds de), conditionHolds cfg e.1 = true →
      StartOK (bytesOf src) e.2.1.bstart ∧ StopOK (bytesOf src) e.2.2.bstop ∧
      (hasAttr e.1 "unwrap-block" = true →
        ∀ hd tl, unwrapParts (bytesOf src) e.2.1 e.2.2 = some (hd, tl) → (bytesOf src)[tl.1]? ≠ some NL)) :
    BlockStyleK (minusRanges (bytesOf src) (extentsOfSource src ds de cfg))
      (positions (buildRemoveMarker cfg (bytesOf src) (parseSource src ds de)) 0) :=
  blockStyle_of_blockDoc src ds de cfg hde (blockMarkers_of_tags src ds de cfg hde h)

/-! A decidable form of the hypothesis, and two instances (one of them with an unwrap-block). -/

def startOKB (b : Bytes) (x : Nat) : Bool :=
  (b[x]? != some NL) &&
    (match lineStartBlank b x x with
     | some u => (decide (0 < u) && b[u - 1]? == some NL) || (u == 0 && x == 0)
     | none => false)

theorem startOKB_sound (b : Bytes) (x : Nat) (h : startOKB b x = true) : StartOK b x := by
  simp only [startOKB, Bool.and_eq_true, bne_iff_ne, ne_eq] at h
  obtain ⟨h1, h3⟩ := h
  refine ⟨h1, ?_⟩
  cases hl : lineStartBlank b x x with
  | none => rw [hl] at h3; simp at h3
  | some u =>
    rw [hl] at h3
    simp only [Bool.or_eq_true, Bool.and_eq_true, decide_eq_true_eq, beq_iff_eq] at h3
    obtain ⟨g1, _, g3⟩ := lineStartBlank_spec b x x u hl
    refine ⟨u, g1, ?_, g3⟩
    rcases h3 with ⟨a, c⟩ | ⟨a, c⟩
    · exact Or.inl ⟨a, c⟩
    · exact Or.inr ⟨a, c⟩

def tagsB (cfg : Cfg) (b : Bytes) (e : Element × Token × Token) : Bool :=
  !conditionHolds cfg e.1 ||
    (startOKB b e.2.1.bstart && (b[e.2.2.bstop]? == some NL || e.2.2.bstop == b.length) &&
      (!hasAttr e.1 "unwrap-block" ||
        (match unwrapParts b e.2.1 e.2.2 with
         | some (_, tl) => b[tl.1]? != some NL
         | none => true)))

theorem tagsB_sound (cfg : Cfg) (b : Bytes) (es : List (Element × Token × Token)) (h : es.all (tagsB cfg b) = true) :
    ∀ e ∈ es, conditionHolds cfg e.1 = true →
      StartOK b e.2.1.bstart ∧ StopOK b e.2.2.bstop ∧
      (hasAttr e.1 "unwrap-block" = true → ∀ hd tl, unwrapParts b e.2.1 e.2.2 = some (hd, tl) → b[tl.1]? ≠ some NL) := by
  intro e he hc
  have := List.all_eq_true.mp h e he
  simp only [tagsB, hc, Bool.not_true, Bool.false_or, Bool.and_eq_true, Bool.or_eq_true, beq_iff_eq] at this
  obtain ⟨⟨h1, h2⟩, h3⟩ := this
  refine ⟨startOKB_sound b _ h1, h2, ?_⟩
  intro hua hd tl hu
  rw [hu, hua] at h3
  simpa using h3

set_option maxRecDepth 8192 in
example : BlockStyleK (minusRanges (bytesOf exSrc) (extentsOfSource exSrc "<".toList ">".toList exCfg))
    (positions (buildRemoveMarker exCfg (bytesOf exSrc) (parseSource exSrc "<".toList ">".toList)) 0) :=
  blockStyle_of_tags exSrc "<".toList ">".toList exCfg (by decide)
    (tagsB_sound exCfg (bytesOf exSrc) _ (by decide +kernel))

/-- a default-strategy element with an empty line in front of its closing tag is within the hypothesis (the clause about the
    wrapper line concerns unwrap-blocks only) -/
example : (elementsOf (parseSource "a\n<rm name='a'>\nx\ny\n\n</rm>\nb\n".toList "<".toList ">".toList)).all
    (tagsB exCfg (bytesOf "a\n<rm name='a'>\nx\ny\n\n</rm>\nb\n".toList)) = true := by decide +kernel

/-- with an unwrap-block that is unwrapped -/
def uwSrc2 : List Char :=
  "a\n  <rm name='a' unwrap-block>\n  if {\n      x\n        y\n  }\n  </rm>\nb".toList

set_option maxRecDepth 8192 in
example : BlockStyleK (minusRanges (bytesOf uwSrc2) (extentsOfSource uwSrc2 "<".toList ">".toList exCfg))
    (positions (buildRemoveMarker exCfg (bytesOf uwSrc2) (parseSource uwSrc2 "<".toList ">".toList)) 0) ∧
    (extentsOfSource uwSrc2 "<".toList ">".toList exCfg).length = 2 :=
  ⟨blockStyle_of_tags uwSrc2 "<".toList ">".toList exCfg (by decide)
    (tagsB_sound exCfg (bytesOf uwSrc2) _ (by decide +kernel)), by decide +kernel⟩

end Chiritori.Props.C13
