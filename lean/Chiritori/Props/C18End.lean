import Chiritori.Props.C19Idem
import Chiritori.Props.C18
import Chiritori.Lemmas.Respell
/-
  C18, end to end for default-strategy removals: the same piece list rendered under two delimiter pairs (pieces whose
  characters avoid both pairs - the property's domain; delimiters beginning and ending with a non-whitespace
  character) is cleaned to the same piece list under the respective pair - tags identical, in the same places, texts
  equal up to whitespace (`respell_default`).

  The whitespace between the tags is not compared exactly: that would need the locality of the whitespace tidying
  (each remover looks only at blanks and line breaks around a seam), which is proved per remover (C13) but not
  assembled across a change of delimiters.  Tag names are covered at the level of the decision (`rename_invariant`).
-/
namespace Chiritori.Props.C18
open Chiritori Chiritori.Spec Chiritori.Props.C19

/-- piece by piece: the same tags, texts with the same non-whitespace -/
def PiecesWs : List Piece → List Piece → Prop
  | [], [] => True
  | .tag b0 rest :: ps, .tag b0' rest' :: qs => b0 = b0' ∧ rest = rest' ∧ PiecesWs ps qs
  | .text v :: ps, .text v' :: qs => nwC v = nwC v' ∧ PiecesWs ps qs
  | [], _ :: _ => False
  | _ :: _, [] => False
  | .tag _ _ :: _, .text _ :: _ => False
  | .text _ :: _, .tag _ _ :: _ => False

theorem piecesWs_of (ds de ds' de' : List Char) : ∀ (L L' : List Token) (qs qs' : List Piece),
    PRel ds de qs L → PRel ds' de' qs' L' → TokXs ds de ds' de' L L' → PiecesWs qs qs'
  | [], [], qs, qs', h1, h2, _ => by
    cases qs with
    | nil =>
      cases qs' with
      | nil => trivial
      | cons q _ => cases q <;> simp [PRel] at h2
    | cons q _ => cases q <;> simp [PRel] at h1
  | [], _ :: _, _, _, _, _, h3 => absurd h3 (by simp [TokXs])
  | _ :: _, [], _, _, _, _, h3 => absurd h3 (by simp [TokXs])
  | t :: L, u :: L', qs, qs', h1, h2, h3 => by
    simp only [TokXs] at h3
    obtain ⟨⟨hk, hx⟩, h3'⟩ := h3
    cases qs with
    | nil => simp [PRel] at h1
    | cons q qs1 =>
      cases qs' with
      | nil => simp [PRel] at h2
      | cons q' qs1' =>
        cases q with
        | text v =>
          obtain ⟨k1, n1, r1⟩ := h1
          cases q' with
          | text v' =>
            obtain ⟨k2, n2, r2⟩ := h2
            rcases hx with ⟨_, hv⟩ | ⟨hke, _⟩
            · exact ⟨by rw [n1, hv, ← n2], piecesWs_of ds de ds' de' L L' qs1 qs1' r1 r2 h3'⟩
            · rw [k1] at hke; cases hke
          | tag b0' rest' =>
            obtain ⟨k2, _, _⟩ := h2
            rw [k1, k2] at hk; cases hk
        | tag b0 rest =>
          obtain ⟨k1, v1, r1⟩ := h1
          cases q' with
          | text v' =>
            obtain ⟨k2, _, _⟩ := h2
            rw [k1, k2] at hk; cases hk
          | tag b0' rest' =>
            obtain ⟨k2, v2, r2⟩ := h2
            rcases hx with ⟨hkt, _⟩ | ⟨_, body, _, hv, hv', _, _⟩
            · rw [k1] at hkt; cases hkt
            · have e1 : body = b0 :: rest := by
                rw [v1, List.append_assoc] at hv
                have := List.append_cancel_left hv
                exact (List.append_cancel_right this).symm
              have e2 : body = b0' :: rest' := by
                rw [v2, List.append_assoc] at hv'
                have := List.append_cancel_left hv'
                exact (List.append_cancel_right this).symm
              rw [e1] at e2
              injection e2 with e3 e4
              exact ⟨e3, e4, piecesWs_of ds de ds' de' L L' qs1 qs1' r1 r2 h3'⟩

theorem ok_of_free (d0 : Char) (dr : List Char) (e0 : Char) (er : List Char) (p : Piece)
    (h : p.free ((d0 :: dr) ++ (e0 :: er))) : p.ok d0 e0 := by
  cases p with
  | text s =>
    intro c hc hcd
    exact h c hc (by simp [hcd])
  | tag b0 rest =>
    intro c hc hce
    exact h c (by simp [hc]) (by simp [hce])

/-- C18 for default-strategy removals, up to whitespace in the texts between the tags -/
theorem respell_default (d0 : Char) (dr : List Char) (e0 : Char) (er : List Char)
    (d0' : Char) (dr' : List Char) (e0' : Char) (er' : List Char)
    (hd0 : wsChar d0 = false) (hel : ∀ w c, (e0 :: er) = w ++ [c] → wsChar c = false)
    (hd0' : wsChar d0' = false) (hel' : ∀ w c, (e0' :: er') = w ++ [c] → wsChar c = false)
    (ps : List Piece)
    (hfree : ∀ p ∈ ps, p.free ((d0 :: dr) ++ (e0 :: er)) ∧ p.free ((d0' :: dr') ++ (e0' :: er')))
    (cfg : Cfg) (out out' : List Char)
    (hnu : NoReadyUnwrap cfg (parseSource (renderAll (d0 :: dr) (e0 :: er) ps) (d0 :: dr) (e0 :: er)))
    (h : clean (renderAll (d0 :: dr) (e0 :: er) ps) (d0 :: dr) (e0 :: er) cfg = .ok out)
    (h' : clean (renderAll (d0' :: dr') (e0' :: er') ps) (d0' :: dr') (e0' :: er') cfg = .ok out') :
    ∃ qs qs', out = renderAll (d0 :: dr) (e0 :: er) qs ∧ out' = renderAll (d0' :: dr') (e0' :: er') qs' ∧
      PiecesWs qs qs' := by
  have hok : ∀ p ∈ ps, p.ok d0 e0 := fun p hp => ok_of_free d0 dr e0 er p (hfree p hp).1
  have hok' : ∀ p ∈ ps, p.ok d0' e0' := fun p hp => ok_of_free d0' dr' e0' er' p (hfree p hp).2
  -- the tokens, and hence the forests, correspond
  have hT := tokXs_of_tnorm (d0 :: dr) (e0 :: er) (d0' :: dr') (e0' :: er') ps [] _ _ hfree
    (tokens_tnorm d0 dr e0 er ps hok) (tokens_tnorm d0' dr' e0' er' ps hok')
  have hG := parse_x (d0 :: dr) (e0 :: er) (d0' :: dr') (e0' :: er') (by simp) (by simp) (by simp) (by simp) _ _ hT
  have hnu' : NoReadyUnwrap cfg
      (parseSource (renderAll (d0' :: dr') (e0' :: er') ps) (d0' :: dr') (e0' :: er')) := by
    intro e he hc
    have hm : e.1 ∈ (elementsOf (parseSource (renderAll (d0' :: dr') (e0' :: er') ps) (d0' :: dr') (e0' :: er'))).map (·.1) :=
      List.mem_map.mpr ⟨e, he, rfl⟩
    unfold parseSource at hm
    rw [← elements_x _ _ _ _ _ _ hG] at hm
    obtain ⟨e1, he1, hee⟩ := List.mem_map.mp hm
    have := hnu e1 he1
    rw [hee] at this
    exact this hc
  obtain ⟨qs, _, ho, hr⟩ := clean_shape d0 dr e0 er hd0 hel ps hok cfg out hnu h
  obtain ⟨qs', _, ho', hr'⟩ := clean_shape d0' dr' e0' er' hd0' hel' ps hok' cfg out' hnu' h'
  refine ⟨qs, qs', ho, ho', ?_⟩
  apply piecesWs_of _ _ _ _ _ _ qs qs' hr hr'
  exact flatten_x _ _ _ _ _ _ (prune_x _ _ _ _ (conditionHolds cfg) _ _ hG)

/-! Non-vacuity: the document of `compose_default`, once with `<` `>` and once with `[%` `%]`. -/
def frB (cs : List Char) : Piece → Bool
  | .text s => s.all fun c => !cs.contains c
  | .tag b0 rest => (b0 :: rest).all fun c => !cs.contains c

theorem frB_sound (cs : List Char) (p : Piece) (h : frB cs p = true) : p.free cs := by
  cases p with
  | text s =>
    intro c hc hm
    simp only [frB, List.all_eq_true] at h
    have := h c hc
    simp [hm] at this
  | tag b0 rest =>
    intro c hc hm
    simp only [frB, List.all_eq_true] at h
    have := h c hc
    simp [hm] at this

example : (∀ p ∈ exPs2, p.free ("<".toList ++ ">".toList) ∧ p.free ("[%".toList ++ "%]".toList)) ∧
    outIs (clean (renderAll "<".toList ">".toList exPs2) "<".toList ">".toList exC2) "a\nm\n\nz\n" = true ∧
    outIs (clean (renderAll "[%".toList "%]".toList exPs2) "[%".toList "%]".toList exC2) "a\nm\n\nz\n" = true := by
  refine ⟨?_, by decide +kernel, by decide +kernel⟩
  intro p hp
  have h1 : exPs2.all (frB ("<".toList ++ ">".toList)) = true := by decide +kernel
  have h2 : exPs2.all (frB ("[%".toList ++ "%]".toList)) = true := by decide +kernel
  exact ⟨frB_sound _ p (List.all_eq_true.mp h1 p hp), frB_sound _ p (List.all_eq_true.mp h2 p hp)⟩

end Chiritori.Props.C18
