import Chiritori.Props.C19Idem
import Chiritori.Props.C18
import Chiritori.Lemmas.Respell
import Chiritori.Lemmas.RespellLines
import Chiritori.Props.C15
/-
  C18, end to end for default-strategy removals: the same piece list rendered under two delimiter pairs (pieces whose
  characters avoid both pairs - the property's domain; delimiters beginning and ending with a non-whitespace
  character) is cleaned to the same piece list under the respective pair - tags identical, in the same places, texts
  equal up to whitespace (`respell_default`).

  The whitespace between the tags is not compared exactly: that would need the locality of the whitespace tidying
  (each remover looks only at blanks and line breaks around a seam), which is proved per remover (C13) but not
  assembled across a change of delimiters.  Tag names are covered at the level of the decision (`rename_invariant`).

  `list_lines_respelled`: with delimiters that contain no line break and no `unwrap-block` in the document, `list`
  reports the same line ranges, item by item, under either pair.
-/
namespace Chiritori.Props.C18
open Chiritori Chiritori.Spec Chiritori.Props.C19

/-- piece by piece: the same tags, texts with the same non-whitespace -/
def PiecesWs : List Piece → List Piece → Prop
  | [], [] => True
  | .tag b0 rest :: ps, .tag b0' rest' :: qs => b0 = b0' ∧ rest = rest' ∧ PiecesWs ps qs
  | .text v :: ps, .text v' :: qs => nwC v = nwC v' ∧ PiecesWs ps qs
  | [], _ :: _ => False
  | _ :: _, [] => False
  | .tag _ _ :: _, .text _ :: _ => False
  | .text _ :: _, .tag _ _ :: _ => False

theorem piecesWs_of (ds de ds' de' : List Char) : ∀ (L L' : List Token) (qs qs' : List Piece),
    PRel ds de qs L → PRel ds' de' qs' L' → TokXs ds de ds' de' (fun _ _ => True) L L' → PiecesWs qs qs'
  | [], [], qs, qs', h1, h2, _ => by
    cases qs with
    | nil =>
      cases qs' with
      | nil => trivial
      | cons q _ => cases q <;> simp [PRel] at h2
    | cons q _ => cases q <;> simp [PRel] at h1
  | [], _ :: _, _, _, _, _, h3 => absurd h3 (by simp [TokXs])
  | _ :: _, [], _, _, _, _, h3 => absurd h3 (by simp [TokXs])
  | t :: L, u :: L', qs, qs', h1, h2, h3 => by
    simp only [TokXs] at h3
    obtain ⟨⟨⟨hk, hx⟩, _⟩, h3'⟩ := h3
    cases qs with
    | nil => simp [PRel] at h1
    | cons q qs1 =>
      cases qs' with
      | nil => simp [PRel] at h2
      | cons q' qs1' =>
        cases q with
        | text v =>
          obtain ⟨k1, n1, r1⟩ := h1
          cases q' with
          | text v' =>
            obtain ⟨k2, n2, r2⟩ := h2
            rcases hx with ⟨_, hv⟩ | ⟨hke, _⟩
            · exact ⟨by rw [n1, hv, ← n2], piecesWs_of ds de ds' de' L L' qs1 qs1' r1 r2 h3'⟩
            · rw [k1] at hke; cases hke
          | tag b0' rest' =>
            obtain ⟨k2, _, _⟩ := h2
            rw [k1, k2] at hk; cases hk
        | tag b0 rest =>
          obtain ⟨k1, v1, r1⟩ := h1
          cases q' with
          | text v' =>
            obtain ⟨k2, _, _⟩ := h2
            rw [k1, k2] at hk; cases hk
          | tag b0' rest' =>
            obtain ⟨k2, v2, r2⟩ := h2
            rcases hx with ⟨hkt, _⟩ | ⟨_, body, _, hv, hv', _, _⟩
            · rw [k1] at hkt; cases hkt
            · have e1 : body = b0 :: rest := by
                rw [v1, List.append_assoc] at hv
                have := List.append_cancel_left hv
                exact (List.append_cancel_right this).symm
              have e2 : body = b0' :: rest' := by
                rw [v2, List.append_assoc] at hv'
                have := List.append_cancel_left hv'
                exact (List.append_cancel_right this).symm
              rw [e1] at e2
              injection e2 with e3 e4
              exact ⟨e3, e4, piecesWs_of ds de ds' de' L L' qs1 qs1' r1 r2 h3'⟩

theorem ok_of_free (d0 : Char) (dr : List Char) (e0 : Char) (er : List Char) (p : Piece)
    (h : p.free ((d0 :: dr) ++ (e0 :: er))) : p.ok d0 e0 := by
  cases p with
  | text s =>
    intro c hc hcd
    exact h c hc (by simp [hcd])
  | tag b0 rest =>
    intro c hc hce
    exact h c (by simp [hc]) (by simp [hce])

/-- C18 for default-strategy removals, up to whitespace in the texts between the tags -/
theorem respell_default (d0 : Char) (dr : List Char) (e0 : Char) (er : List Char)
    (d0' : Char) (dr' : List Char) (e0' : Char) (er' : List Char)
    (hd0 : wsChar d0 = false) (hel : ∀ w c, (e0 :: er) = w ++ [c] → wsChar c = false)
    (hd0' : wsChar d0' = false) (hel' : ∀ w c, (e0' :: er') = w ++ [c] → wsChar c = false)
    (ps : List Piece)
    (hfree : ∀ p ∈ ps, p.fits d0 e0 (d0 :: dr) (e0 :: er) ∧ p.fits d0' e0' (d0' :: dr') (e0' :: er'))
    (cfg : Cfg) (out out' : List Char)
    (hnu : NoReadyUnwrap cfg (parseSource (renderAll (d0 :: dr) (e0 :: er) ps) (d0 :: dr) (e0 :: er)))
    (h : clean (renderAll (d0 :: dr) (e0 :: er) ps) (d0 :: dr) (e0 :: er) cfg = .ok out)
    (h' : clean (renderAll (d0' :: dr') (e0' :: er') ps) (d0' :: dr') (e0' :: er') cfg = .ok out') :
    ∃ qs qs', out = renderAll (d0 :: dr) (e0 :: er) qs ∧ out' = renderAll (d0' :: dr') (e0' :: er') qs' ∧
      PiecesWs qs qs' := by
  have hok : ∀ p ∈ ps, p.ok d0 e0 := fun p hp => Piece.ok_of_fits _ _ _ _ p (hfree p hp).1
  have hok' : ∀ p ∈ ps, p.ok d0' e0' := fun p hp => Piece.ok_of_fits _ _ _ _ p (hfree p hp).2
  -- the tokens, and hence the forests, correspond
  have hT := tokXs_of_tnorm (d0 :: dr) (e0 :: er) (d0' :: dr') (e0' :: er') ps [] _ _
    (fun p hp => ⟨Piece.strip_of_fits _ _ _ _ p (hfree p hp).1, Piece.strip_of_fits _ _ _ _ p (hfree p hp).2⟩)
    (tokens_tnorm d0 dr e0 er ps hok) (tokens_tnorm d0' dr' e0' er' ps hok')
  have hG := parse_x (d0 :: dr) (e0 :: er) (d0' :: dr') (e0' :: er') (fun _ _ => True) (by simp) (by simp) (by simp) (by simp) _ _ hT
  have hnu' : NoReadyUnwrap cfg
      (parseSource (renderAll (d0' :: dr') (e0' :: er') ps) (d0' :: dr') (e0' :: er')) := by
    intro e he hc
    have hm : e.1 ∈ (elementsOf (parseSource (renderAll (d0' :: dr') (e0' :: er') ps) (d0' :: dr') (e0' :: er'))).map (·.1) :=
      List.mem_map.mpr ⟨e, he, rfl⟩
    unfold parseSource at hm
    rw [← elements_x _ _ _ _ _ _ _ hG] at hm
    obtain ⟨e1, he1, hee⟩ := List.mem_map.mp hm
    have := hnu e1 he1
    rw [hee] at this
    exact this hc
  obtain ⟨qs, _, ho, hr⟩ := clean_shape d0 dr e0 er hd0 hel ps hok cfg out hnu h
  obtain ⟨qs', _, ho', hr'⟩ := clean_shape d0' dr' e0' er' hd0' hel' ps hok' cfg out' hnu' h'
  refine ⟨qs, qs', ho, ho', ?_⟩
  apply piecesWs_of _ _ _ _ _ _ qs qs' hr hr'
  exact flatten_x _ _ _ _ _ _ _ (prune_x _ _ _ _ _ (conditionHolds cfg) _ _ hG)

/-! ### list line ranges under a change of delimiters -/

/-- no element carries `unwrap-block` -/
def NoUnwrapAttr (parts : List Part) : Prop := ∀ e ∈ elementsOf parts, hasAttr e.1 "unwrap-block" = false

theorem elementsOf_append' : ∀ (a b : List Part), elementsOf (a ++ b) = elementsOf a ++ elementsOf b
  | [], b => by simp [elementsOf]
  | x :: xs, b => by simp [elementsOf, elementsOf_append' xs b, List.append_assoc]

mutual
theorem wrapFree_of_noUnwrap (b : Bytes) : ∀ (parts : List Part), NoUnwrapAttr parts → WrapFree b parts
  | [], _ => trivial
  | p :: ps, h => by
    simp only [WrapFree]
    exact ⟨wrapFreePart_of_noUnwrap b p (fun e he => h e (by simp [elementsOf, he])),
      wrapFree_of_noUnwrap b ps (fun e he => h e (by simp [elementsOf, he]))⟩
theorem wrapFreePart_of_noUnwrap (b : Bytes) : ∀ (p : Part),
    (∀ e ∈ elementsOfPart p, hasAttr e.1 "unwrap-block" = false) → WrapFreePart b p
  | .text _, _ => trivial
  | .element el st en ch, h => by
    simp only [WrapFreePart]
    refine ⟨?_, wrapFree_of_noUnwrap b ch (fun e he => h e (by simp [elementsOfPart, he]))⟩
    intro hh t hext
    have hu := h (el, st, en) (by simp [elementsOfPart])
    simp only [extentOf, hu, Bool.false_eq_true, ite_false] at hext
    split at hext <;> simp at hext
end

/-- the line range `list` reports for a region (`C15.line_numbers`) -/
def lineRangeOf (b : Bytes) (r : Rng) : Nat × Nat := (1 + nlBefore b r.1, 1 + nlBefore b (r.2 - 1))

theorem lineRange_is_reported (b : Bytes) (start stop : Nat) (h : 0 < stop) :
    getLineRange (lineBreaks b) start stop = .ok (lineRangeOf b (start, stop)) := by
  rw [C15.line_numbers b start stop h, count_lineBreaks, count_lineBreaks]
  rfl

mutual
theorem regions_lines (ds de ds' de' : List Char) (b b' : Bytes) (sel : Element → Bool) :
    ∀ (a a' : List Part), partsX ds de ds' de' (SameLines b b') a a' →
    (∀ e ∈ elementsOf a, hasAttr e.1 "unwrap-block" = false ∧ e.2.1.bstart < e.2.2.bstop) →
    (∀ e ∈ elementsOf a', hasAttr e.1 "unwrap-block" = false ∧ e.2.1.bstart < e.2.2.bstop) →
    (refRegions sel b a).map (lineRangeOf b) = (refRegions sel b' a').map (lineRangeOf b')
  | [], [], _, _, _ => rfl
  | [], _ :: _, h, _, _ => absurd h (by simp [partsX])
  | _ :: _, [], h, _, _ => absurd h (by simp [partsX])
  | p :: ps, q :: qs, h, h1, h2 => by
    simp only [partsX] at h
    simp only [refRegions, List.map_append]
    rw [regionsPart_lines ds de ds' de' b b' sel p q h.1 (fun e he => h1 e (by simp [elementsOf, he]))
        (fun e he => h2 e (by simp [elementsOf, he])),
      regions_lines ds de ds' de' b b' sel ps qs h.2 (fun e he => h1 e (by simp [elementsOf, he]))
        (fun e he => h2 e (by simp [elementsOf, he]))]
theorem regionsPart_lines (ds de ds' de' : List Char) (b b' : Bytes) (sel : Element → Bool) :
    ∀ (p q : Part), partX ds de ds' de' (SameLines b b') p q →
    (∀ e ∈ elementsOfPart p, hasAttr e.1 "unwrap-block" = false ∧ e.2.1.bstart < e.2.2.bstop) →
    (∀ e ∈ elementsOfPart q, hasAttr e.1 "unwrap-block" = false ∧ e.2.1.bstart < e.2.2.bstop) →
    (refRegionsPart sel b p).map (lineRangeOf b) = (refRegionsPart sel b' q).map (lineRangeOf b')
  | .text _, .text _, _, _, _ => rfl
  | .text _, .element _ _ _ _, h, _, _ => absurd h (by simp [partX])
  | .element _ _ _ _, .text _, h, _, _ => absurd h (by simp [partX])
  | .element el st en ch, .element el' st' en' ch', h, h1, h2 => by
    simp only [partX] at h
    obtain ⟨hel, hst, hen, hch⟩ := h
    subst hel
    obtain ⟨u1, o1⟩ := h1 (el, st, en) (by simp [elementsOfPart])
    obtain ⟨u2, o2⟩ := h2 (el, st', en') (by simp [elementsOfPart])
    have ih := regions_lines ds de ds' de' b b' sel ch ch' hch (fun e he => h1 e (by simp [elementsOfPart, he]))
      (fun e he => h2 e (by simp [elementsOfPart, he]))
    simp only [refRegionsPart]
    split
    · rw [extentOf_default b el st en u1 o1, extentOf_default b' el st' en' u2 o2]
      simp only [List.map_cons, List.map_nil, lineRangeOf]
      rw [hst.2.1, hen.2.2.2]
    · exact ih
end

/-- C18, listing, in its general form: whenever the tokens of the two renderings are the normalised pieces (the
    conclusion of C08) and the tag bodies can be stripped of both delimiter pairs, the two listings have the same line
    ranges, item by item (delimiters without line breaks, no element carrying `unwrap-block`) -/
theorem list_lines_respelled_tn (d0 : Char) (dr : List Char) (e0 : Char) (er : List Char)
    (d0' : Char) (dr' : List Char) (e0' : Char) (er' : List Char)
    (hnl : ∀ c ∈ (d0 :: dr) ++ (e0 :: er), c ≠ '\n') (hnl' : ∀ c ∈ (d0' :: dr') ++ (e0' :: er'), c ≠ '\n')
    (ps : List Piece)
    (hstrip : ∀ p ∈ ps, p.strip (d0 :: dr) (e0 :: er) ∧ p.strip (d0' :: dr') (e0' :: er'))
    (htn : (tokenize (renderAll (d0 :: dr) (e0 :: er) ps) (d0 :: dr) (e0 :: er)).map (fun t => (t.kind, t.value))
      = tnorm (d0 :: dr) (e0 :: er) [] ps [])
    (htn' : (tokenize (renderAll (d0' :: dr') (e0' :: er') ps) (d0' :: dr') (e0' :: er')).map (fun t => (t.kind, t.value))
      = tnorm (d0' :: dr') (e0' :: er') [] ps [])
    (cfg : Cfg)
    (hnu : NoUnwrapAttr (parseSource (renderAll (d0 :: dr) (e0 :: er) ps) (d0 :: dr) (e0 :: er))) :
    (listMarkers (renderAll (d0 :: dr) (e0 :: er) ps) (d0 :: dr) (e0 :: er) cfg).map
        (fun x => lineRangeOf (bytesOf (renderAll (d0 :: dr) (e0 :: er) ps)) (x.1.start, x.1.stop)) =
    (listMarkers (renderAll (d0' :: dr') (e0' :: er') ps) (d0' :: dr') (e0' :: er') cfg).map
        (fun x => lineRangeOf (bytesOf (renderAll (d0' :: dr') (e0' :: er') ps)) (x.1.start, x.1.stop)) := by
  have hT := tokXs_of_tnorm (d0 :: dr) (e0 :: er) (d0' :: dr') (e0' :: er') ps [] _ _ hstrip htn htn'
  generalize hsrc : renderAll (d0 :: dr) (e0 :: er) ps = src at hnu hT
  generalize hsrc' : renderAll (d0' :: dr') (e0' :: er') ps = src' at hT
  obtain ⟨tk, _⟩ := tokenize_ok src (d0 :: dr) (e0 :: er) (by simp)
  obtain ⟨tk', _⟩ := tokenize_ok src' (d0' :: dr') (e0' :: er') (by simp)
  -- the line counts agree token by token
  have hpw := chain_sameLines (d0 :: dr) (e0 :: er) (d0' :: dr') (e0' :: er') hnl hnl'
    (fun w c h => hnl c (by rw [h]; simp)) (fun w c h => hnl' c (by rw [h]; simp)) (by simp) (by simp)
    _ _ 0 0 0 0 [] [] [] [] tk.chain tk'.chain hT rfl rfl rfl
  simp only [List.nil_append, List.append_nil, tk.flatEq, tk'.flatEq] at hpw
  have hTL := tokXs_zip _ _ _ _ _ _ _ hT hpw
  have hG := parse_x (d0 :: dr) (e0 :: er) (d0' :: dr') (e0' :: er') _ (by simp) (by simp) (by simp) (by simp) _ _ hTL
  have hnu' : NoUnwrapAttr (parseSource src' (d0' :: dr') (e0' :: er')) := by
    intro e he
    have hm : e.1 ∈ (elementsOf (parseSource src' (d0' :: dr') (e0' :: er'))).map (·.1) := List.mem_map.mpr ⟨e, he, rfl⟩
    unfold parseSource at hm
    rw [← elements_x _ _ _ _ _ _ _ hG] at hm
    obtain ⟨e1, he1, hee⟩ := List.mem_map.mp hm
    have := hnu e1 he1
    rw [hee] at this
    exact this
  -- the listed regions are the reference regions
  rw [show (fun x : Marker × Bool => lineRangeOf (bytesOf src) (x.1.start, x.1.stop)) =
      (lineRangeOf (bytesOf src)) ∘ (fun x : Marker × Bool => (x.1.start, x.1.stop)) from rfl,
    show (fun x : Marker × Bool => lineRangeOf (bytesOf src') (x.1.start, x.1.stop)) =
      (lineRangeOf (bytesOf src')) ∘ (fun x : Marker × Bool => (x.1.start, x.1.stop)) from rfl,
    ← List.map_map, ← List.map_map,
    C15.regions_exact src _ _ cfg (by simp) (wrapFree_of_noUnwrap _ _ hnu),
    C15.regions_exact src' _ _ cfg (by simp) (wrapFree_of_noUnwrap _ _ hnu')]
  -- spans, to know that a start tag lies in front of the end of its end tag
  have hspan : BSpan (flattenParts (parseSource src (d0 :: dr) (e0 :: er))) 0 (blen src) := by
    have := BSpan_of_chain _ 0 0 tk.chain
    rw [tk.flatEq, Nat.zero_add] at this
    rw [show flattenParts (parseSource src (d0 :: dr) (e0 :: er)) = tokenize src (d0 :: dr) (e0 :: er) from parse_flatten _ _ _]
    exact this
  have hspan' : BSpan (flattenParts (parseSource src' (d0' :: dr') (e0' :: er'))) 0 (blen src') := by
    have := BSpan_of_chain _ 0 0 tk'.chain
    rw [tk'.flatEq, Nat.zero_add] at this
    rw [show flattenParts (parseSource src' (d0' :: dr') (e0' :: er')) = tokenize src' (d0' :: dr') (e0' :: er') from parse_flatten _ _ _]
    exact this
  exact regions_lines _ _ _ _ _ _ (conditionHolds cfg) _ _ hG
    (fun e he => ⟨hnu e he, elements_ordered _ 0 _ hspan e he⟩)
    (fun e he => ⟨hnu' e he, elements_ordered _ 0 _ hspan' e he⟩)

/-- C18, listing: the same piece list under two delimiter pairs that contain no line break (no element carrying
    `unwrap-block`) is listed with the same line ranges, item by item -/
theorem list_lines_respelled (d0 : Char) (dr : List Char) (e0 : Char) (er : List Char)
    (d0' : Char) (dr' : List Char) (e0' : Char) (er' : List Char)
    (hnl : ∀ c ∈ (d0 :: dr) ++ (e0 :: er), c ≠ '\n') (hnl' : ∀ c ∈ (d0' :: dr') ++ (e0' :: er'), c ≠ '\n')
    (ps : List Piece)
    (hfree : ∀ p ∈ ps, p.fits d0 e0 (d0 :: dr) (e0 :: er) ∧ p.fits d0' e0' (d0' :: dr') (e0' :: er'))
    (cfg : Cfg)
    (hnu : NoUnwrapAttr (parseSource (renderAll (d0 :: dr) (e0 :: er) ps) (d0 :: dr) (e0 :: er))) :
    (listMarkers (renderAll (d0 :: dr) (e0 :: er) ps) (d0 :: dr) (e0 :: er) cfg).map
        (fun x => lineRangeOf (bytesOf (renderAll (d0 :: dr) (e0 :: er) ps)) (x.1.start, x.1.stop)) =
    (listMarkers (renderAll (d0' :: dr') (e0' :: er') ps) (d0' :: dr') (e0' :: er') cfg).map
        (fun x => lineRangeOf (bytesOf (renderAll (d0' :: dr') (e0' :: er') ps)) (x.1.start, x.1.stop)) :=
  list_lines_respelled_tn d0 dr e0 er d0' dr' e0' er' hnl hnl' ps
    (fun p hp => ⟨Piece.strip_of_fits _ _ _ _ p (hfree p hp).1, Piece.strip_of_fits _ _ _ _ p (hfree p hp).2⟩)
    (tokens_tnorm d0 dr e0 er ps (fun p hp => Piece.ok_of_fits _ _ _ _ p (hfree p hp).1))
    (tokens_tnorm d0' dr' e0' er' ps (fun p hp => Piece.ok_of_fits _ _ _ _ p (hfree p hp).2))
    cfg hnu

/-! Non-vacuity: the document of `compose_default`, once with `<` `>` and once with `[%` `%]`. -/
def frB (cs : List Char) : Piece → Bool
  | .text s => s.all fun c => !cs.contains c
  | .tag b0 rest => (b0 :: rest).all fun c => !cs.contains c

theorem frB_sound (cs : List Char) (p : Piece) (h : frB cs p = true) : p.free cs := by
  cases p with
  | text s =>
    intro c hc hm
    simp only [frB, List.all_eq_true] at h
    have := h c hc
    simp [hm] at this
  | tag b0 rest =>
    intro c hc hm
    simp only [frB, List.all_eq_true] at h
    have := h c hc
    simp [hm] at this

example : (∀ p ∈ exPs2, p.fits '<' '>' "<".toList ">".toList ∧ p.fits '[' '%' "[%".toList "%]".toList) ∧
    outIs (clean (renderAll "<".toList ">".toList exPs2) "<".toList ">".toList exC2) "a\nm\n\nz\n" = true ∧
    outIs (clean (renderAll "[%".toList "%]".toList exPs2) "[%".toList "%]".toList exC2) "a\nm\n\nz\n" = true := by
  refine ⟨?_, by decide +kernel, by decide +kernel⟩
  intro p hp
  have h1 : exPs2.all (frB ("<".toList ++ ">".toList)) = true := by decide +kernel
  have h2 : exPs2.all (frB ("[%".toList ++ "%]".toList)) = true := by decide +kernel
  exact ⟨Piece.fits_of_free '<' [] '>' [] p (frB_sound _ p (List.all_eq_true.mp h1 p hp)),
    Piece.fits_of_free '[' ['%'] '%' [']'] p (frB_sound _ p (List.all_eq_true.mp h2 p hp))⟩

theorem noUnwrapAttr_of_all (parts : List Part)
    (h : (elementsOf parts).all (fun e => !hasAttr e.1 "unwrap-block") = true) : NoUnwrapAttr parts := by
  intro e he
  have := List.all_eq_true.mp h e he
  simpa using this

/-! Non-vacuity of `list_lines_respelled`: no element of the example carries `unwrap-block`, and three regions are listed
    (lines 2-4, 6 and 7 under either delimiter pair). -/
example : NoUnwrapAttr (parseSource (renderAll "<".toList ">".toList exPs2) "<".toList ">".toList) ∧
    (listMarkers (renderAll "[%".toList "%]".toList exPs2) "[%".toList "%]".toList exC2).map
      (fun x => lineRangeOf (bytesOf (renderAll "[%".toList "%]".toList exPs2)) (x.1.start, x.1.stop)) = [(2, 4), (6, 6), (7, 7)] :=
  ⟨noUnwrapAttr_of_all _ (by decide +kernel), by decide +kernel⟩

end Chiritori.Props.C18
