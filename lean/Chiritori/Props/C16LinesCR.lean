import Chiritori.Props.C16CR
/-
  C16, first clause, for texts WITH carriage returns (CR LF files): `item_shows_source_lines_cr` - the plain item is the
  start marker line, the source lines `first .. last`, each without its carriage return, behind its number, and the end
  marker line.  Premises on the highlighted span, in the style of `json_block_is_pretty_block_cr`: every carriage return
  in it is directly followed by a line break (`CrThenNl`: so it has no `\r\r`, and does not end with one - what the
  D17 repair provides for CR LF files), it does not end with a line break, and the text in front of it on its first line
  does not end with a carriage return (the region does not begin between a CR and its LF).
-/
namespace Chiritori.Props.C16
open Chiritori Chiritori.Spec

/-- every carriage return is directly followed by a line break -/
def CrThenNl : List Char → Prop
  | [] => True
  | c :: rest => (c = '\r' → ∃ t, rest = '\n' :: t) ∧ CrThenNl rest

/-- `\r\n` replaced by `\n` -/
def dropCrLf : List Char → List Char
  | [] => []
  | c :: rest => if c = '\r' ∧ rest.head? = some '\n' then dropCrLf rest else c :: dropCrLf rest

theorem dropCrLf_cons_ne (c : Char) (t : List Char) (hc : c ≠ '\r') : dropCrLf (c :: t) = c :: dropCrLf t := by
  simp [dropCrLf, hc]

theorem dropCrLf_crlf (t : List Char) : dropCrLf ('\r' :: '\n' :: t) = '\n' :: dropCrLf t := by
  have hne : ('\n' : Char) ≠ '\r' := by decide
  simp [dropCrLf, hne]

theorem getLast?_append_ne {α} (l l' : List α) (h : l' ≠ []) : (l ++ l').getLast? = l'.getLast? := by
  rw [List.getLast?_append]
  cases hl : l'.getLast? with
  | none => exact absurd (List.getLast?_eq_none_iff.mp hl) h
  | some x => rfl

theorem splitInclusive_ne : ∀ (x cur : List Char), (cur ≠ [] ∨ x ≠ []) → splitInclusive x cur ≠ []
  | [], [], h => by rcases h with h | h <;> exact absurd rfl h
  | [], _ :: _, _ => by simp [splitInclusive]
  | c :: cs, cur, _ => by
    simp only [splitInclusive]
    split
    · simp
    · exact splitInclusive_ne cs (cur ++ [c]) (Or.inl (by simp))

/-- the lines of a text, carriage returns stripped, do not change when `\r\n` is replaced by `\n` in a stretch of it -/
theorem linesT_dropCrLf (Q : List Char) : ∀ (M cur : List Char), CrThenNl M → cur.getLast? ≠ some '\r' →
    (linesT (dropCrLf M ++ Q) cur).map stripCR = (linesT (M ++ Q) cur).map stripCR
  | [], cur, _, _ => by simp [dropCrLf]
  | c :: t, cur, hM, hcur => by
    have hMt : CrThenNl t := hM.2
    by_cases hc : c = '\r'
    · subst hc
      obtain ⟨t', rfl⟩ := hM.1 rfl
      have hMt' : CrThenNl t' := hMt.2
      have hne : ('\r' : Char) ≠ '\n' := by decide
      rw [dropCrLf_crlf]
      have l1 : linesT ('\n' :: dropCrLf t' ++ Q) cur = cur :: linesT (dropCrLf t' ++ Q) [] := by
        simp [linesT]
      have l2 : linesT ('\r' :: '\n' :: t' ++ Q) cur = (cur ++ ['\r']) :: linesT (t' ++ Q) [] := by
        simp [linesT, hne]
      rw [l1, l2]
      simp only [List.map_cons]
      have e1 : stripCR (cur ++ ['\r']) = cur := by simp [stripCR]
      have e2 : stripCR cur = cur := by
        unfold stripCR; rw [if_neg hcur]
      rw [e1, e2, linesT_dropCrLf Q t' [] hMt' (by simp)]
    · rw [dropCrLf_cons_ne c t hc]
      simp only [List.cons_append, linesT]
      split
      · simp only [List.map_cons]
        rw [linesT_dropCrLf Q t [] hMt (by simp)]
      · exact linesT_dropCrLf Q t (cur ++ [c]) hMt (by simp [hc])

theorem linesT_dropCrLf_pre (M Q : List Char) (hM : CrThenNl M) : ∀ (P cur : List Char), (cur ++ P).getLast? ≠ some '\r' →
    (linesT (P ++ (dropCrLf M ++ Q)) cur).map stripCR = (linesT (P ++ (M ++ Q)) cur).map stripCR
  | [], cur, h => by
    simp only [List.nil_append]
    exact linesT_dropCrLf Q M cur hM (by simpa using h)
  | c :: t, cur, h => by
    simp only [List.cons_append, linesT]
    split
    · simp only [List.map_cons]
      rw [linesT_dropCrLf_pre M Q hM t [] (by
        cases t with
        | nil => simp
        | cons d ds =>
          simp only [List.nil_append]
          have : (cur ++ c :: d :: ds).getLast? = (d :: ds).getLast? := by
            rw [show cur ++ c :: d :: ds = (cur ++ [c]) ++ (d :: ds) by simp, getLast?_append_ne _ _ (by simp)]
          rw [← this]; exact h)]
    · exact linesT_dropCrLf_pre M Q hM t (cur ++ [c]) (by simpa using h)

/-- `str::lines` then joining with line breaks: `\r\n` becomes `\n` -/
theorem joinWith_rustLines_cr_aux : ∀ (m cur : List Char), CrThenNl m → (∀ c ∈ cur, c ≠ '\r') → (∀ c ∈ cur, c ≠ '\n') →
    (cur ++ m).getLast? ≠ some '\n' →
    joinWith ['\n'] ((splitInclusive m cur).map stripLineEnd) = cur ++ dropCrLf m
  | [], [], _, _, _, _ => by simp [splitInclusive, joinWith, dropCrLf]
  | [], d :: ds, _, _, _, hl => by
    simp only [splitInclusive, List.map_cons, List.map_nil, joinWith, dropCrLf, List.append_nil]
    exact stripLineEnd_id _ (by simpa using hl)
  | c :: t, cur, hM, h1, h2, hl => by
    have hMt : CrThenNl t := hM.2
    by_cases hc : c = '\r'
    · subst hc
      obtain ⟨t', rfl⟩ := hM.1 rfl
      have hMt' : CrThenNl t' := hMt.2
      have hne : ('\r' : Char) ≠ '\n' := by decide
      rw [dropCrLf_crlf]
      have hsp : splitInclusive ('\r' :: '\n' :: t') cur = (cur ++ ['\r'] ++ ['\n']) :: splitInclusive t' [] := by
        simp [splitInclusive, hne]
      rw [hsp]
      simp only [List.map_cons]
      have hpiece : stripLineEnd (cur ++ ['\r'] ++ ['\n']) = cur := by
        rw [stripLineEnd_piece]; simp [stripCR]
      rw [hpiece]
      have ht' : t' ≠ [] := by
        intro e; subst e
        apply hl; simp
      have ih := joinWith_rustLines_cr_aux t' [] hMt' (by simp) (by simp) (by
        have : (cur ++ '\r' :: '\n' :: t').getLast? = t'.getLast? := by
          rw [show cur ++ '\r' :: '\n' :: t' = (cur ++ ['\r', '\n']) ++ t' by simp, getLast?_append_ne _ _ ht']
        simpa [this] using hl)
      have hne2 := splitInclusive_ne t' [] (Or.inr ht')
      cases hrest : splitInclusive t' [] with
      | nil => exact absurd hrest hne2
      | cons r rs =>
        rw [hrest] at ih
        simp only [List.map_cons, joinWith, List.nil_append] at ih ⊢
        rw [ih]
        simp
    · rw [dropCrLf_cons_ne c t hc]
      simp only [splitInclusive]
      split
      · rename_i hcn
        subst hcn
        simp only [List.map_cons]
        have hpiece : stripLineEnd (cur ++ ['\n']) = cur := by
          rw [stripLineEnd_piece]
          unfold stripCR
          rw [if_neg]
          intro hh
          exact h1 _ (List.mem_of_getLast? hh) rfl
        rw [hpiece]
        have ht : t ≠ [] := by
          intro e; subst e
          apply hl; simp
        have ih := joinWith_rustLines_cr_aux t [] hMt (by simp) (by simp) (by
          have : (cur ++ '\n' :: t).getLast? = t.getLast? := by
            rw [show cur ++ '\n' :: t = (cur ++ ['\n']) ++ t by simp, getLast?_append_ne _ _ ht]
          simpa [this] using hl)
        have hne2 := splitInclusive_ne t [] (Or.inr ht)
        cases hrest : splitInclusive t [] with
        | nil => exact absurd hrest hne2
        | cons r rs =>
          rw [hrest] at ih
          simp only [List.map_cons, joinWith, List.nil_append] at ih ⊢
          rw [ih]
          simp
      · rename_i hcn
        have := joinWith_rustLines_cr_aux t (cur ++ [c]) hMt
          (by intro x hx; rcases List.mem_append.mp hx with h | h; exact h1 x h; simp at h; rw [h]; exact hc)
          (by intro x hx; rcases List.mem_append.mp hx with h | h; exact h2 x h; simp at h; rw [h]; exact hcn)
          (by simpa using hl)
        simpa using this

theorem joinWith_rustLines_cr (m : List Char) (hM : CrThenNl m) (hl : m.getLast? ≠ some '\n') :
    joinWith ['\n'] (rustLines m) = dropCrLf m := by
  have := joinWith_rustLines_cr_aux m [] hM (by simp) (by simp) (by simpa using hl)
  simpa [rustLines] using this

/-- C16, first clause, for a text with carriage returns: the plain item is the start marker line, the source lines
    `first .. last` WITHOUT THEIR CARRIAGE RETURNS - exactly those, `last + 1 - first` of them - each behind its number,
    tabs expanded, and the end marker line -/
theorem item_shows_source_lines_cr (s : List Char) (start stop : Nat) (isRemoval : Bool)
    (h1 : BPos (bytesOf s) start) (h2 : BPos (bytesOf s) stop) (hlt : start < stop)
    (h0 : (bytesOf s)[0]? ≠ some NL)
    (a z : Nat) (ha : a = 1 + ((lineBreaks (bytesOf s)).filter fun p => decide (p < start)).length)
    (hz : z = 1 + ((lineBreaks (bytesOf s)).filter fun p => decide (p < stop - 1)).length)
    (hmid : (charsOf (geomOf (bytesOf s) start stop (some (a, z))).mid).getLast? ≠ some '\n')
    (hcrm : CrThenNl (charsOf (geomOf (bytesOf s) start stop (some (a, z))).mid))
    (hcrp : (charsOf (geomOf (bytesOf s) start stop (some (a, z))).pre).getLast? ≠ some '\r') :
    ((((srcLines s).drop (a - 1)).take (z + 1 - a)).map stripCR).length = z + 1 - a ∧
    buildItem (bytesOf s) start stop isRemoval false (some (a, z)) = .ok (
      List.replicate (4 * (geomOf (bytesOf s) start stop (some (a, z))).startTabs
        + (geomOf (bytesOf s) start stop (some (a, z))).startPad) ' ' ++ strMarkerStart ++ ['\n']
      ++ replaceTabs ((((((srcLines s).drop (a - 1)).take (z + 1 - a)).map stripCR).zipIdx a).flatMap
          fun (l, i) => lineColumn i ++ l ++ ['\n'])
      ++ List.replicate (4 * (geomOf (bytesOf s) start stop (some (a, z))).endTabs
        + (geomOf (bytesOf s) start stop (some (a, z))).endPad) ' ' ++ strMarkerEnd) := by
  have hlenb : (bytesOf s).length = blen s := length_bytesOf s
  have hstartle : start ≤ (bytesOf s).length := by have := h2.2; omega
  obtain ⟨a1, a2, a3⟩ := lineStartOf_spec (bytesOf s) start hstartle h0
  obtain ⟨c1, c2, c3⟩ := lineEndOf_spec (bytesOf s) (stop - 1) (by have := h2.2; omega)
  obtain ⟨lc1, _⟩ := lineEnd_facts s (stop - 1) (by have := h2.2; rw [hlenb] at this; omega)
  obtain ⟨_, hce1, hce2⟩ := colorEnd_facts s start stop _ h2 lc1 hlt c1
  have hg := itemGeom_ok s start stop (a, z) h1 h2 hlt
  generalize hG : geomOf (bytesOf s) start stop (some (a, z)) = g at hmid hcrm hcrp hg ⊢
  generalize hls : lineStartOf (bytesOf s) start = ls at a1 a2 a3
  generalize hle : lineEndOf (bytesOf s) (stop - 1) = le at c1 c2 c3 hce1 hce2
  generalize hcev : colorEndOf (bytesOf s) start stop le = ce at hce1 hce2
  have hpre : g.pre = ((bytesOf s).take start).drop ls := by rw [← hG]; simp only [geomOf, hls]
  have hmidE : g.mid = ((bytesOf s).take ce).drop start := by rw [← hG]; simp only [geomOf, hle, hcev]
  have hpost : g.post = ((bytesOf s).take le).drop ce := by rw [← hG]; simp only [geomOf, hle, hcev]
  -- the shown text: the bytes from the line start to the line end
  generalize hW : charsOf (((bytesOf s).take le).drop ls) = W
  have hWs : ∀ c ∈ W, c ∈ s := by
    intro c hc; rw [← hW] at hc; exact slice_chars s _ _ c hc
  have hWsplit : W = charsOf g.pre ++ (charsOf g.mid ++ charsOf g.post) := by
    rw [← charsOf_append, ← charsOf_append, hpre, hmidE, hpost, slices_concat _ start ce le hce1 hce2,
      slices_concat _ ls start le a1 (by omega), hW]
  have hrem : removedText false isRemoval g = charsOf g.pre ++ (dropCrLf (charsOf g.mid) ++ (charsOf g.post ++ ['\n'])) := by
    unfold removedText
    have hid : (fun l => colSpan false isRemoval ++ l ++ colOff false) = (fun l : List Char => l) := by
      funext l; simp [colSpan, colOff]
    rw [hid, List.map_id', joinWith_rustLines_cr _ hcrm hmid]
    simp only [List.append_assoc]
  have hlinesW : rustLines (charsOf g.pre ++ (dropCrLf (charsOf g.mid) ++ (charsOf g.post ++ ['\n']))) = (linesT W []).map stripCR := by
    have e : charsOf g.pre ++ (dropCrLf (charsOf g.mid) ++ (charsOf g.post ++ ['\n']))
        = (charsOf g.pre ++ (dropCrLf (charsOf g.mid) ++ charsOf g.post)) ++ ['\n'] := by simp
    rw [e]
    unfold rustLines
    rw [rustLines_terminated_cr, hWsplit]
    exact linesT_dropCrLf_pre (charsOf g.mid) (charsOf g.post) hcrm (charsOf g.pre) [] (by simpa using hcrp)
  -- counting line breaks
  have hcA : a - 1 = ((bytesOf s).take ls).count NL := by
    rw [ha, count_lineBreaks, count_take_of_none _ ls start a1 a3]; omega
  have hcZ : z - 1 = ((bytesOf s).take (stop - 1)).count NL := by
    rw [hz, count_lineBreaks]; omega
  have hsplit1 : (bytesOf s).take (stop - 1) = (bytesOf s).take ls ++ ((bytesOf s).take (stop - 1)).drop ls := by
    have := List.take_append_drop ls ((bytesOf s).take (stop - 1))
    rw [List.take_take, Nat.min_eq_left (by omega)] at this
    exact this.symm
  have hsplit2 : ((bytesOf s).take (stop - 1)).drop ls ++ ((bytesOf s).take le).drop (stop - 1) =
      ((bytesOf s).take le).drop ls := slices_concat _ ls (stop - 1) le (by omega) c1
  have hk : z + 1 - a ≤ (linesT W []).length := by
    rw [linesT_length, ← hW, count_charsOf, ← hsplit2, List.count_append]
    have : ((bytesOf s).take (stop - 1)).count NL =
        ((bytesOf s).take ls).count NL + (((bytesOf s).take (stop - 1)).drop ls).count NL := by
      conv => lhs; rw [hsplit1]
      rw [List.count_append]
    omega
  -- the source lines
  have hs : s = charsOf ((bytesOf s).take ls) ++ (W ++ charsOf ((bytesOf s).drop le)) := by
    have e1 : bytesOf s = (bytesOf s).take ls ++ (((bytesOf s).take le).drop ls ++ (bytesOf s).drop le) := by
      have t1 := List.take_append_drop le (bytesOf s)
      have t2 := List.take_append_drop ls ((bytesOf s).take le)
      rw [List.take_take, Nat.min_eq_left (by omega)] at t2
      rw [← List.append_assoc, t2, t1]
    conv => lhs; rw [← charsOf_bytesOf s, e1]
    rw [charsOf_append, charsOf_append, hW]
  have hdrop : (srcLines s).drop (a - 1) = linesT (W ++ charsOf ((bytesOf s).drop le)) [] := by
    unfold srcLines
    rcases a2 with a2 | a2
    · -- the region starts on the first line
      have : ((bytesOf s).take ls).count NL = 0 := by rw [a2]; simp
      rw [hcA, this, List.drop_zero]
      conv => lhs; rw [hs, a2]
      simp [charsOf]
    · have hlspos : 0 < ls := by
        cases hl0 : ls with
        | zero => rw [hl0] at a2; simp at a2; exact absurd a2 h0
        | succ n => omega
      have e2 : (bytesOf s).take ls = (bytesOf s).take (ls - 1) ++ [NL] := by
        have := List.take_add_one (l := bytesOf s) (i := ls - 1)
        rw [show ls - 1 + 1 = ls by omega, a2] at this
        simpa using this
      conv => lhs; rw [hs, e2, charsOf_append]
      have : charsOf [NL] = ['\n'] := rfl
      rw [this, List.append_assoc, List.singleton_append, linesT_append_nl]
      have hlen : (linesT (charsOf ((bytesOf s).take (ls - 1))) []).length = a - 1 := by
        rw [linesT_length, count_charsOf, hcA, e2, List.count_append]
        simp
      rw [List.drop_append_of_le_length (by omega), ← hlen, List.drop_length, List.nil_append]
  have htake : ((srcLines s).drop (a - 1)).take (z + 1 - a) = (linesT W []).take (z + 1 - a) := by
    rw [hdrop]
    rcases c3 with c3 | c3
    · rw [c3, List.drop_length]
      simp [charsOf]
    · have e3 : (bytesOf s).drop le = NL :: (bytesOf s).drop (le + 1) := by
        have hlt' := lt_of_getElem?_some _ _ _ c3
        rw [List.drop_eq_getElem_cons hlt']
        congr 1
        rw [List.getElem?_eq_getElem hlt'] at c3
        injection c3
      rw [e3]
      have : charsOf (NL :: (bytesOf s).drop (le + 1)) = '\n' :: charsOf ((bytesOf s).drop (le + 1)) := rfl
      rw [this, linesT_append_nl, List.take_append_of_le_length hk]
  refine ⟨by rw [List.length_map, htake, List.length_take, Nat.min_eq_left hk], ?_⟩
  unfold buildItem
  rw [hg]
  simp only
  unfold renderItem
  have hpl : colMarker false = [] := rfl
  have hpo : colOff false = [] := rfl
  simp only [hpl, hpo, List.append_nil, List.append_assoc]
  rw [marker_pad', marker_pad']
  simp only [codeBlockOf, hrem, hlinesW, zipLines_take, ← List.map_take, htake, List.append_assoc]

/-! A decidable form of the premise and an instance: a CR LF text, a region over two of its lines. -/
def crThenNlB : List Char → Bool
  | [] => true
  | c :: rest => (c != '\r' || rest.head? == some '\n') && crThenNlB rest

theorem crThenNlB_sound : ∀ (l : List Char), crThenNlB l = true → CrThenNl l
  | [], _ => trivial
  | c :: rest, h => by
    simp only [crThenNlB, Bool.and_eq_true, Bool.or_eq_true, bne_iff_ne, ne_eq, beq_iff_eq] at h
    refine ⟨?_, crThenNlB_sound rest h.2⟩
    intro hc
    rcases h.1 with h1 | h1
    · exact absurd hc h1
    · cases rest with
      | nil => simp at h1
      | cons d ds =>
        simp only [List.head?_cons, Option.some.injEq] at h1
        exact ⟨ds, by rw [h1]⟩

example :
    let s := "a\r\n\tb <x>\r\ny</x> c\r\nd\r\n".toList
    let g := geomOf (bytesOf s) 6 16 (some (2, 3))
    (bytesOf s)[0]? ≠ some NL ∧ crThenNlB (charsOf g.mid) = true ∧ (charsOf g.mid).getLast? ≠ some '\n' ∧
    (charsOf g.pre).getLast? ≠ some '\r' ∧ charsOf g.mid = "<x>\r\ny</x>".toList ∧
    (((srcLines s).drop (2 - 1)).take (3 + 1 - 2)).map stripCR = ["\tb <x>".toList, "y</x> c".toList] := by
  refine ⟨by decide, by decide +kernel, by decide +kernel, by decide +kernel, by decide +kernel, by decide +kernel⟩

end Chiritori.Props.C16
