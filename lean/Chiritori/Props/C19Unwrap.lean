import Chiritori.Lemmas.UnwrapShape
import Chiritori.Props.C19Idem
/-
  C19, first clause, with unwrapped blocks: for a well-delimited source without stray tags, whose tags contain no line
  break, in which every ready unwrap-block can be unwrapped and has no tag on its wrapper lines, cleaning the output
  again with the same configuration changes nothing.  (Without "no stray tags" this is false: known finding D19.)
-/
namespace Chiritori.Props.C19
open Chiritori Chiritori.Spec

/-- what the formatting pass deletes, block ranges included: whitespace, in runs that touch a seam or a line start -/
theorem format_anchored_u (s1 : List Char) (pos : List (Nat × Option Nat)) (o : Bytes)
    (hf : format (bytesOf s1) pos = .ok o) (bnds : List Nat)
    (hb : ∀ p ∈ pos, p.1 = 0 ∨ p.1 ∈ bnds)
    (hnl : ∀ ls, 0 < ls → (bytesOf s1)[ls - 1]? = some NL → ls ∈ bnds) :
    ∃ F, o = minusFrom (bytesOf s1) 0 F ∧ Anchored F (bytesOf s1) bnds 0 ∧
      ∀ d, inAny F d = true → ∃ y, (bytesOf s1)[d]? = some y ∧ isWs y = true := by
  unfold format at hf
  cases hfc : formatCollect (bytesOf s1) pos pos with
  | error e => rw [hfc] at hf; simp at hf
  | ok rb =>
    obtain ⟨ranges, blocks⟩ := rb
    rw [hfc] at hf
    simp only at hf
    obtain ⟨ok1, ok2⟩ := formatCollect_ok s1 pos pos ranges blocks hfc
    obtain ⟨loc1, loc2⟩ := C14.ranges_local s1 pos pos ranges blocks hfc
    have hall : ∀ x ∈ mergeRanges ranges (sortByStart blocks), RangeOK s1 x := by
      intro x hx
      rcases mem_mergeRanges _ _ _ hx with hx | hx
      · exact ok1 x hx
      · exact ok2 x (mem_sortByStart _ _ hx)
    obtain ⟨m1, m2⟩ := mergeOverlapped_spec s1 _ hall
    rw [deleteRanges_eq_deleteAll] at hf
    have hrsF := RSorted_of_OSorted s1 _ m1 m2 0 (fun _ _ => Nat.zero_le _)
    have heq := deleteAll_eq (bytesOf s1) _ 0 hrsF o hf
    simp only [List.take_zero, List.drop_zero, List.nil_append] at heq
    refine ⟨_, heq, ?_, ?_⟩
    · intro d hd
      have hd2 := C14.merged_subset _ d hd
      simp only [inAny, List.any_eq_true] at hd2
      obtain ⟨x, hx, hxd⟩ := hd2
      simp only [Rng.contains, Bool.and_eq_true, decide_eq_true_eq] at hxd
      rcases mem_mergeRanges _ _ _ hx with hx | hx
      · obtain ⟨p, hp, g⟩ := loc1 x hx
        refine ⟨x.1, x.2, p.1, hxd.1, hxd.2, g.le1, g.le2, ?_, ?_⟩
        · intro i hi1 hi2
          obtain ⟨y, hy, hyw⟩ := g.ws i hi1 hi2
          exact ⟨y, hy, isWs_of_isWsByte y hyw⟩
        · rcases hb p hp with h | h
          · exact Or.inl (by omega)
          · exact Or.inr h
      · obtain ⟨p, hp, q, hxb⟩ := loc2 x (mem_sortByStart _ _ hx)
        obtain ⟨ls, ip, a1, a2, a3, a4, a5, a6⟩ := fmtBlockIndent_anchor (bytesOf s1) p.1 q x hxb
        obtain ⟨_, c1, _, _, c5⟩ := findNextChar_some (bytesOf s1) ls ip a4
        have hbl : isBoundary (bytesOf s1) ls = true := by
          have := nl_next_boundary s1 (ls - 1) a3
          rw [show ls - 1 + 1 = ls by omega] at this
          exact this.1
        obtain ⟨hblank, _⟩ := skip_run_blank s1 ls ip hbl c5
        refine ⟨ls, ip, ls, by omega, by omega, Nat.le_refl _, c1, ?_, Or.inr (hnl ls (by omega) a3)⟩
        intro i' hi1' hi2'
        obtain ⟨y, hy, hyb⟩ := hblank i' hi1' hi2'
        refine ⟨y, hy, ?_⟩
        rcases hyb with rfl | rfl <;> rfl
    · intro d hd
      simp only [inAny, List.any_eq_true] at hd
      obtain ⟨r, hr, hrd⟩ := hd
      simp only [Rng.contains, Bool.and_eq_true, decide_eq_true_eq] at hrd
      obtain ⟨y, hy, hyw⟩ := (m1 r hr).ws d hrd.1 hrd.2
      exact ⟨y, hy, isWs_of_isWsByte y hyw⟩

/-- in a list of segments each of which is a single line break or contains none, the position behind a line break is
    the end of a segment -/
theorem nl_segEnd : ∀ (segs : List Bytes) (off k : Nat), (∀ s ∈ segs, s ≠ [] ∧ (s = [NL] ∨ NL ∉ s)) →
    segs.flatten[k]? = some NL → off + k + 1 ∈ segEnds segs off
  | [], _, k, _, h => by simp at h
  | s :: ss, off, k, hs, h => by
    obtain ⟨hne, hshape⟩ := hs s (by simp)
    simp only [List.flatten_cons] at h
    simp only [segEnds, List.mem_cons]
    by_cases hk : k < s.length
    · rw [List.getElem?_append_left hk] at h
      rcases hshape with rfl | hno
      · left
        simp only [List.length_singleton] at hk ⊢
        omega
      · exact absurd (List.mem_of_getElem? h) hno
    · right
      rw [List.getElem?_append_right (by omega)] at h
      have := nl_segEnd ss (off + s.length) (k - s.length) (fun x hx => hs x (by simp [hx])) h
      rw [show off + s.length + (k - s.length) + 1 = off + k + 1 by omega] at this
      exact this

theorem chain_value_ne : ∀ (T : List Token) (s bs : Nat), ChainFrom T s bs → ∀ t ∈ T, t.value ≠ []
  | [], _, _, _, t, ht => by cases ht
  | u :: us, s, bs, hc, t, ht => by
    obtain ⟨_, _, c3, _, _, c6⟩ := hc
    rcases List.mem_cons.mp ht with rfl | ht
    · exact c3
    · exact chain_value_ne us _ _ c6 t ht

theorem tagValues_split_filter (X : List Rng) (T : List Token) :
    tagValues ((splitToks T).filter (keepTok X)) = tagValues (T.filter (keepTok X)) := by
  unfold tagValues
  rw [List.filter_filter, List.filter_filter]
  have h1 : ∀ (L : List Token), L.filter (fun t => decide (t.kind = .element) && keepTok X t) =
      (L.filter (fun t => t.kind = .element)).filter (keepTok X) := by
    intro L
    rw [List.filter_filter]
    congr 1
    funext t
    rw [Bool.and_comm]
  rw [h1, h1, splitToks_tags]

/-- what cleaning a well-delimited source whose tags contain no line break gives, unwrapped blocks included: again a
    well-delimited text, whose tags are the tags of the source that no ready extent covers, in order -/
theorem clean_shape_u (d0 : Char) (dr : List Char) (e0 : Char) (er : List Char)
    (hd0 : wsChar d0 = false) (hel : ∀ w c, (e0 :: er) = w ++ [c] → wsChar c = false)
    (ps : List Piece) (hok : ∀ p ∈ ps, p.ok d0 e0) (cfg : Cfg) (out : List Char)
    (htag : ∀ t ∈ tokenize (renderAll (d0 :: dr) (e0 :: er) ps) (d0 :: dr) (e0 :: er), t.kind = .element →
      ∀ c ∈ t.value, c ≠ '\n')
    (h : clean (renderAll (d0 :: dr) (e0 :: er) ps) (d0 :: dr) (e0 :: er) cfg = .ok out) :
    ∃ ps', (∀ p ∈ ps', p.ok d0 e0) ∧ out = renderAll (d0 :: dr) (e0 :: er) ps' ∧
      tagsOf (d0 :: dr) (e0 :: er) ps' =
        tagValues ((tokenize (renderAll (d0 :: dr) (e0 :: er) ps) (d0 :: dr) (e0 :: er)).filter
          (keepTok (extentsOfSource (renderAll (d0 :: dr) (e0 :: er) ps) (d0 :: dr) (e0 :: er) cfg))) := by
  have htn := tokens_tnorm d0 dr e0 er ps hok
  generalize hsrc : renderAll (d0 :: dr) (e0 :: er) ps = src at h htag htn ⊢
  have hde : (e0 :: er) ≠ [] := by simp
  obtain ⟨hok', _⟩ := tokenize_ok src (d0 :: dr) (e0 :: er) hde
  generalize hT : tokenize src (d0 :: dr) (e0 :: er) = T at htag htn hok' ⊢
  generalize hX : extentsOfSource src (d0 :: dr) (e0 :: er) cfg = X
  have hW : Wholly X (splitToks T) := by
    rw [← hX, ← hT]; exact wholly_split src _ _ cfg hde (by rw [hT]; exact htag)
  have hcs : ChainFrom (splitToks T) 0 0 := splitToks_chain T 0 0 hok'.chain
  have hflat : flat (splitToks T) = src := by rw [flat_splitToks, hok'.flatEq]
  -- the shape of the tokens
  have hshapeT : ∀ t ∈ T, TokShape d0 e0 (d0 :: dr) (e0 :: er) (t.kind, t.value) := by
    intro t ht
    have hkv : (t.kind, t.value) ∈ T.map (fun t => (t.kind, t.value)) := List.mem_map.mpr ⟨t, ht, rfl⟩
    rw [htn] at hkv
    exact tnorm_shape d0 e0 _ _ ps [] hok (by simp) _ hkv
  have hshape : ∀ u ∈ (splitToks T).filter (keepTok X), TokShape d0 e0 (d0 :: dr) (e0 :: er) (u.kind, u.value) := by
    intro u hu
    have hum := (List.mem_filter.mp hu).1
    rcases splitToks_mem T u hum with ⟨hk, huT⟩ | ⟨hk, _, t, htT, htk, hsub⟩
    · exact hshapeT u huT
    · have := hshapeT t htT
      simp only [TokShape, htk] at this
      simp only [TokShape, hk]
      intro c hc
      exact this c (hsub c hc)
  have hsegs : ∀ sg ∈ tokSegs X (splitToks T), sg ≠ [] ∧ (sg = [NL] ∨ NL ∉ sg) := by
    intro sg hsg
    unfold tokSegs at hsg
    obtain ⟨u, hu, rfl⟩ := List.mem_map.mp hsg
    have hum := (List.mem_filter.mp hu).1
    have hne := chain_value_ne _ 0 0 hcs u hum
    refine ⟨?_, ?_⟩
    · intro hb
      have := congrArg List.length hb
      rw [length_bytesOf] at this
      have := blen_pos_of_ne_nil hne
      simp at *
      omega
    · rcases splitToks_mem T u hum with ⟨hk, huT⟩ | ⟨_, hsh, _⟩
      · right
        intro hm
        exact htag u huT hk '\n' (lead_mem_of_bytesOf _ _ hm) rfl
      · rcases hsh with hv | hv
        · left; rw [hv]; decide
        · right
          intro hm
          exact hv '\n' (lead_mem_of_bytesOf _ _ hm) rfl
  -- clean, step by step
  unfold clean at h
  simp only [bind, Except.bind, pure, Except.pure] at h
  generalize hM : buildRemoveMarker cfg (bytesOf src) (parseSource src (d0 :: dr) (e0 :: er)) = M at h
  cases hrm : removeMarkers (bytesOf src) M with
  | error e => rw [hrm] at h; simp at h
  | ok removed =>
    rw [hrm] at h
    simp only at h
    cases hpos : getRemovedPos M with
    | error e => rw [hpos] at h; simp at h
    | ok pos =>
      rw [hpos] at h
      simp only at h
      cases hf : format removed pos with
      | error e => rw [hf] at h; simp at h
      | ok o =>
        rw [hf] at h
        simp only at h
        injection h with h
        subst h
        obtain ⟨hs, hcov⟩ := buildRemoveMarker_spec src (d0 :: dr) (e0 :: er) cfg hde
        rw [hM] at hs hcov
        have hcov' : ∀ i, inAny X i = true ↔ mcov M i := by
          intro i; rw [hcov i, ← hX]
        have hremoved : removed = (tokSegs X (splitToks T)).flatten := by
          have h1 := C02.removed_eq src (d0 :: dr) (e0 :: er) cfg hde removed (by rw [hM]; exact hrm)
          rw [h1, minusRanges_eq_minusFrom, hX, tokSegs_flatten]
          have := minusFrom_tokens X (splitToks T) 0 0 hcs hW
          rw [hflat] at this
          exact this
        have hpos' := removedPosAux_eq M 0 0 (blen src) hs (Nat.le_refl _)
        unfold getRemovedPos at hpos
        rw [hpos'] at hpos
        injection hpos with hpos
        have hposk := positions_koffTo X (bytesOf src) M 0 0 (blen src) hs (by simp)
          (fun i _ => hcov' i) (by simp [koffTo_zero])
        obtain ⟨s1, hs1⟩ := deleteAll_wellFormed src _ removed hrm
        rw [hs1] at hf
        obtain ⟨F, ho, hanch, hFws⟩ := format_anchored_u s1 pos o hf (segEnds (tokSegs X (splitToks T)) 0)
          (by
            intro p hp
            rw [← hpos] at hp
            have hp1 := (List.of_mem_zip hp).1
            rw [hposk] at hp1
            obtain ⟨m, hm, hmp⟩ := List.mem_map.mp hp1
            obtain ⟨g1, g2, g3⟩ := MSorted_bounds M 0 (blen src) hs m hm
            have := koffTo_covered X (splitToks T) hcs hW m.start
              (by rw [hflat]; omega) ((hcov' m.start).mpr ⟨m, hm, Nat.le_refl _, g2⟩)
            rw [hflat] at this
            rw [← hmp]; exact this)
          (by
            intro ls hls hnl
            rw [← hs1, hremoved] at hnl
            have := nl_segEnd (tokSegs X (splitToks T)) 0 (ls - 1) hsegs hnl
            rw [show 0 + (ls - 1) + 1 = ls by omega] at this
            exact this)
        rw [← hs1] at ho hanch hFws
        have hck := coresKept_of_anchored F removed (tokSegs X (splitToks T)) 0 [] (by simpa using hremoved) rfl
          (by rw [hremoved] at hanch; rw [hremoved]; exact hanch)
        obtain ⟨ps', q1, q2, q3, _⟩ := (pieces_after d0 dr e0 er hd0 hel F removed hFws)
          ((splitToks T).filter (keepTok X)) 0 [] (by simpa [tokSegs] using hremoved) rfl hshape
          (by simpa [tokSegs] using hck)
        have hout : charsOf o = renderAll (d0 :: dr) (e0 :: er) ps' := by
          rw [ho, hremoved]
          have : (tokSegs X (splitToks T)).flatten =
              (((splitToks T).filter (keepTok X)).map fun t => bytesOf t.value).flatten := rfl
          rw [this, ← q2, charsOf_bytesOf]
        refine ⟨ps', q1, hout, ?_⟩
        rw [q3, tagValues_split_filter]

/-! ### the elements that are left -/

theorem elementsOf_append' (a b : List Part) : elementsOf (a ++ b) = elementsOf a ++ elementsOf b := by
  induction a with
  | nil => simp [elementsOf]
  | cons x xs ih => simp [elementsOf, ih, List.append_assoc]

mutual
/-- the elements of the unwrapped forest are elements of the forest, none of them selected -/
theorem splice_elements (P : Element → Bool) : ∀ (parts : List Part),
    ∀ e ∈ elementsOf (spliceParts P parts), e ∈ elementsOf parts ∧ P e.1 = false
  | [], e, he => by simp [spliceParts, elementsOf] at he
  | p :: ps, e, he => by
    simp only [spliceParts, elementsOf_append', List.mem_append] at he
    simp only [elementsOf, List.mem_append]
    rcases he with he | he
    · obtain ⟨a, b⟩ := splicePart_elements P p e he; exact ⟨Or.inl a, b⟩
    · obtain ⟨a, b⟩ := splice_elements P ps e he; exact ⟨Or.inr a, b⟩
theorem splicePart_elements (P : Element → Bool) : ∀ (p : Part),
    ∀ e ∈ elementsOf (splicePart P p), e ∈ elementsOfPart p ∧ P e.1 = false
  | .text _, e, he => by simp [splicePart, elementsOf, elementsOfPart] at he
  | .element el st en ch, e, he => by
    simp only [splicePart] at he
    split at he
    · obtain ⟨a, b⟩ := splice_elements P ch e he
      exact ⟨by simp [elementsOfPart, a], b⟩
    · rename_i hp
      simp only [elementsOf, elementsOfPart, List.append_nil, List.mem_cons] at he
      rcases he with rfl | he
      · exact ⟨by simp [elementsOfPart], by simpa using hp⟩
      · obtain ⟨a, b⟩ := splice_elements P ch e he
        exact ⟨by simp [elementsOfPart, a], b⟩
end

mutual
theorem noStray_prune (P : Element → Bool) : ∀ (H : List Part), NoStray H → NoStray (pruneParts P H)
  | [], _ => trivial
  | .text t :: rest, h => by
    simp only [NoStray] at h
    simp only [pruneParts, prunePart, List.singleton_append, NoStray]
    exact ⟨h.1, noStray_prune P rest h.2⟩
  | .element el st en ch :: rest, h => by
    simp only [NoStray, NoStrayP] at h
    simp only [pruneParts, prunePart]
    split
    · simpa using noStray_prune P rest h.2
    · simp only [List.singleton_append, NoStray, NoStrayP]
      exact ⟨⟨h.1.1, h.1.2.1, noStray_prune P ch h.1.2.2⟩, noStray_prune P rest h.2⟩
end

theorem demoted_nil_of_noStray (ds de : List Char) : ∀ (H : List Part), NoStray H → demotedNames ds de H = []
  | [], _ => rfl
  | .text t :: rest, h => by
    simp only [NoStray, NoStrayP] at h
    have : elparse ds de t = none := by simp [elparse, h.1]
    simp only [demotedNames, this, List.nil_append]
    exact demoted_nil_of_noStray ds de rest h.2
  | .element _ _ _ _ :: rest, h => by
    simp only [NoStray] at h
    simp only [demotedNames]
    exact demoted_nil_of_noStray ds de rest h.2

mutual
theorem bodiesClosed_of_noStray (ds de : List Char) (P : Element → Bool) : ∀ (H : List Part), NoStray H →
    BodiesClosed ds de P H
  | [], _ => trivial
  | p :: ps, h => by
    simp only [NoStray] at h
    exact ⟨bodyClosed_of_noStray ds de P p h.1, bodiesClosed_of_noStray ds de P ps h.2⟩
theorem bodyClosed_of_noStray (ds de : List Char) (P : Element → Bool) : ∀ (p : Part), NoStrayP p → BodyClosed ds de P p
  | .text _, _ => trivial
  | .element el st en ch, h => by
    simp only [NoStrayP] at h
    exact ⟨fun _ => demoted_nil_of_noStray ds de ch h.2.2, bodiesClosed_of_noStray ds de P ch h.2.2⟩
end

theorem ready_split (cfg : Cfg) (el : Element) (h1 : isDefaultReady cfg el = false) (h2 : isUnwrapReady cfg el = false) :
    conditionHolds cfg el = false := by
  simp only [isDefaultReady, isUnwrapReady] at h1 h2
  cases hc : conditionHolds cfg el with
  | false => rfl
  | true =>
    rw [hc] at h1 h2
    cases hu : hasAttr el "unwrap-block" <;> simp [hu] at h1 h2

/-- C19, first clause, with unwrapped blocks: a well-delimited source without stray tags whose tags contain no line
    break, in which every ready unwrap-block can be unwrapped and has no tag on its wrapper lines - cleaning the result
    again with the same configuration changes nothing -/
theorem idempotent_unwrap (d0 : Char) (dr : List Char) (e0 : Char) (er : List Char)
    (hd0 : wsChar d0 = false) (hel : ∀ w c, (e0 :: er) = w ++ [c] → wsChar c = false)
    (ps : List Piece) (hok : ∀ p ∈ ps, p.ok d0 e0) (cfg : Cfg) (out : List Char)
    (htag : ∀ t ∈ tokenize (renderAll (d0 :: dr) (e0 :: er) ps) (d0 :: dr) (e0 :: er), t.kind = .element →
      ∀ c ∈ t.value, c ≠ '\n')
    (htext : TextsAreText (parseSource (renderAll (d0 :: dr) (e0 :: er) ps) (d0 :: dr) (e0 :: er)))
    (hshape : ReadyShape cfg (bytesOf (renderAll (d0 :: dr) (e0 :: er) ps))
      (parseSource (renderAll (d0 :: dr) (e0 :: er) ps) (d0 :: dr) (e0 :: er)))
    (h : clean (renderAll (d0 :: dr) (e0 :: er) ps) (d0 :: dr) (e0 :: er) cfg = .ok out) :
    clean out (d0 :: dr) (e0 :: er) cfg = .ok out := by
  obtain ⟨ps', q1, hout, q3⟩ := clean_shape_u d0 dr e0 er hd0 hel ps hok cfg out htag h
  subst hout
  generalize hsrc : renderAll (d0 :: dr) (e0 :: er) ps = src at htext hshape q3
  have hde : (e0 :: er) ≠ [] := by simp
  obtain ⟨hok', _⟩ := tokenize_ok src (d0 :: dr) (e0 :: er) hde
  have hfl : flattenParts (parseSource src (d0 :: dr) (e0 :: er)) = tokenize src (d0 :: dr) (e0 :: er) := parse_flatten _ _ _
  have hoks : OKS (d0 :: dr) (e0 :: er) [] (parseSource src (d0 :: dr) (e0 :: er)) := parse_OKS _ _ _
  have hspan : BSpan (flattenParts (parseSource src (d0 :: dr) (e0 :: er))) 0 (blen src) := by
    have := BSpan_of_chain _ 0 0 hok'.chain
    rw [hok'.flatEq, Nat.zero_add] at this
    rw [hfl]; exact this
  have hns : NoStray (parseSource src (d0 :: dr) (e0 :: er)) := noStray_of_OKS _ _ _ [] hoks htext
  -- the tags that are left are the tags of the pruned and unwrapped forest
  have hkept := kept_tags cfg (bytesOf src) (extentsOfSource src (d0 :: dr) (e0 :: er) cfg)
    (parseSource src (d0 :: dr) (e0 :: er)) 0 (blen src) hspan (by simp) hns hshape (by
      intro t _ _
      unfold extentsOfSource
      rw [readyExtents_eq])
  generalize hG2 : spliceParts (isUnwrapReady cfg) (pruneParts (isDefaultReady cfg) (parseSource src (d0 :: dr) (e0 :: er))) = G2
    at hkept
  have htags : tagValues (tokenize (renderAll (d0 :: dr) (e0 :: er) ps') (d0 :: dr) (e0 :: er)) =
      tagValues (flattenParts G2) := by
    rw [tagValues_render d0 dr e0 er ps' q1, q3]
    unfold tagValues
    have e1 : (flattenParts G2).filter (fun t => decide (t.kind = .element)) = (flattenParts G2).filter isTagTok := rfl
    rw [e1, hkept, hfl, List.filter_filter]
    have e2 : ∀ (L : List Token), L.filter (fun t => decide (t.kind = .element) &&
          keepTok (extentsOfSource src (d0 :: dr) (e0 :: er) cfg) t) =
        L.filter (fun t => isTagTok t && !inAny (extentsOfSource src (d0 :: dr) (e0 :: er) cfg) t.bstart) := by
      intro L
      apply List.filter_congr
      intro t _
      rfl
    rw [e2]
  -- so the forest of the result is that forest: it is a fixed point of parsing
  have hfix : parse (d0 :: dr) (e0 :: er) (flattenParts G2) = G2 := by
    rw [← hG2]
    have hpp := parse_pruned (d0 :: dr) (e0 :: er) (isDefaultReady cfg) (tokenize src (d0 :: dr) (e0 :: er))
    have hbc : BodiesClosed (d0 :: dr) (e0 :: er) (isUnwrapReady cfg)
        (parse (d0 :: dr) (e0 :: er) (flattenParts (pruneParts (isDefaultReady cfg) (parseSource src (d0 :: dr) (e0 :: er))))) := by
      unfold parseSource
      rw [hpp]
      exact bodiesClosed_of_noStray _ _ _ _ (noStray_prune _ _ hns)
    have := parse_unwrapped (d0 :: dr) (e0 :: er) (isUnwrapReady cfg)
      (flattenParts (pruneParts (isDefaultReady cfg) (parseSource src (d0 :: dr) (e0 :: er)))) hbc
    unfold parseSource at this ⊢
    rw [hpp] at this
    exact this
  have hels : (elementsOf (parseSource (renderAll (d0 :: dr) (e0 :: er) ps') (d0 :: dr) (e0 :: er))).map (·.1) =
      (elementsOf G2).map (·.1) := by
    have hskel := skel_congr (d0 :: dr) (e0 :: er) _ _ htags
    rw [elementsOf_skel, elementsOf_skel]
    unfold parseSource
    rw [hskel, hfix]
  -- none of its elements is ready
  have hnone : nothingReady (renderAll (d0 :: dr) (e0 :: er) ps') (d0 :: dr) (e0 :: er) cfg = true := by
    unfold nothingReady extentsOfSource readyExtents
    rw [List.isEmpty_iff, List.flatMap_eq_nil_iff]
    intro e he
    have hel' : e.1 ∈ (elementsOf (parseSource (renderAll (d0 :: dr) (e0 :: er) ps') (d0 :: dr) (e0 :: er))).map (·.1) :=
      List.mem_map.mpr ⟨e, he, rfl⟩
    rw [hels] at hel'
    obtain ⟨e', he', hee⟩ := List.mem_map.mp hel'
    rw [← hG2] at he'
    obtain ⟨hin, hnu⟩ := splice_elements (isUnwrapReady cfg) _ e' he'
    have hnd := prune_no_ready (isDefaultReady cfg) _ e' hin
    have := ready_split cfg e'.1 hnd hnu
    obtain ⟨el, st, en⟩ := e
    simp only at hee ⊢
    rw [← hee, this]
    simp
  exact C04.c04 (renderAll (d0 :: dr) (e0 :: er) ps') (d0 :: dr) (e0 :: er) cfg (by simp) (by simp) hnone

/-! ### decidable forms of the premises, and an instance -/

mutual
def textsAreTextB : List Part → Bool
  | [] => true
  | p :: ps => textIsTextB p && textsAreTextB ps
def textIsTextB : Part → Bool
  | .text t => decide (t.kind = .text)
  | .element _ _ _ ch => textsAreTextB ch
end

mutual
theorem textsAreTextB_sound : ∀ (H : List Part), textsAreTextB H = true → TextsAreText H
  | [], _ => trivial
  | p :: ps, h => by
    simp only [textsAreTextB, Bool.and_eq_true] at h
    exact ⟨textIsTextB_sound p h.1, textsAreTextB_sound ps h.2⟩
theorem textIsTextB_sound : ∀ (p : Part), textIsTextB p = true → TextIsText p
  | .text t, h => by
    simp only [textIsTextB, decide_eq_true_eq] at h
    exact h
  | .element _ _ _ ch, h => by
    simp only [textIsTextB] at h
    exact textsAreTextB_sound ch h
end

mutual
def readyShapeB (cfg : Cfg) (b : Bytes) : List Part → Bool
  | [] => true
  | p :: ps => readyShapePB cfg b p && readyShapeB cfg b ps
def readyShapePB (cfg : Cfg) (b : Bytes) : Part → Bool
  | .text _ => true
  | .element el st en ch =>
    (!(conditionHolds cfg el && hasAttr el "unwrap-block") ||
      (match unwrapParts b st en with
       | some (h, t) => (elementsOf ch).all fun e => decide (h.2 ≤ e.2.1.bstart) && decide (e.2.2.bstop < t.1)
       | none => false)) && readyShapeB cfg b ch
end

mutual
theorem readyShapeB_sound (cfg : Cfg) (b : Bytes) : ∀ (H : List Part), readyShapeB cfg b H = true → ReadyShape cfg b H
  | [], _ => trivial
  | p :: ps, h => by
    simp only [readyShapeB, Bool.and_eq_true] at h
    exact ⟨readyShapePB_sound cfg b p h.1, readyShapeB_sound cfg b ps h.2⟩
theorem readyShapePB_sound (cfg : Cfg) (b : Bytes) : ∀ (p : Part), readyShapePB cfg b p = true → ReadyShapeP cfg b p
  | .text _, _ => trivial
  | .element el st en ch, h => by
    simp only [readyShapePB, Bool.and_eq_true, Bool.or_eq_true, Bool.not_eq_eq_eq_not, Bool.not_true] at h
    obtain ⟨h1, h2⟩ := h
    refine ⟨?_, readyShapeB_sound cfg b ch h2⟩
    intro hc hu
    rcases h1 with h1 | h1
    · simp [hc, hu] at h1
    · cases hup : unwrapParts b st en with
      | none => rw [hup] at h1; simp at h1
      | some ht =>
        obtain ⟨hh, tt⟩ := ht
        rw [hup] at h1
        simp only [List.all_eq_true, Bool.and_eq_true, decide_eq_true_eq] at h1
        exact ⟨hh, tt, rfl, h1⟩
end

/-- an unwrap-block with a removable child in its body, and a pending element behind it -/
def uwPs : List Piece :=
  [.text "a\n".toList, .tag 't' "l to='2000-01-01 00:00:00' unwrap-block".toList, .text "\nif (x) {\n  keep();\n  ".toList,
   .tag 'r' "m name='a'".toList, .text "gone".toList, .tag '/' "rm".toList, .text "\n  more();\n}\n".toList, .tag '/' "tl".toList,
   .text "\n".toList, .tag 'r' "m name='b'".toList, .text "stay".toList, .tag '/' "rm".toList, .text "\nz\n".toList]
def uwCfg : Cfg := ⟨"tl".toList, "rm".toList, 1577836800, 0, "+00:00".toList, ["a".toList]⟩

def uwSrc : List Char := renderAll "<".toList ">".toList uwPs

example : ∀ p ∈ uwPs, p.ok '<' '>' := by
  intro p hp
  have : uwPs.all (fun p => match p with
    | .text s => s.all (· != '<')
    | .tag _ rest => rest.all (· != '>')) = true := by decide +kernel
  have hp' := List.all_eq_true.mp this p hp
  cases p with
  | text s =>
    intro c hc
    simp only [List.all_eq_true] at hp'
    simpa using hp' c hc
  | tag b0 rest =>
    intro c hc
    simp only [List.all_eq_true] at hp'
    simpa using hp' c hc

example : ∀ t ∈ tokenize uwSrc "<".toList ">".toList, t.kind = .element → ∀ c ∈ t.value, c ≠ '\n' := by
  intro t ht hk c hc
  have : (tokenize uwSrc "<".toList ">".toList).all
      (fun t => t.kind != .element || t.value.all (· != '\n')) = true := by decide +kernel
  have ht' := List.all_eq_true.mp this t ht
  simp only [hk, bne_self_eq_false, Bool.false_or, List.all_eq_true] at ht'
  simpa using ht' c hc

set_option maxRecDepth 8192 in
example : TextsAreText (parseSource uwSrc "<".toList ">".toList) := textsAreTextB_sound _ (by decide +kernel)

set_option maxRecDepth 8192 in
example : ReadyShape uwCfg (bytesOf uwSrc) (parseSource uwSrc "<".toList ">".toList) :=
  readyShapeB_sound _ _ _ (by decide +kernel)

example : outIs (clean uwSrc "<".toList ">".toList uwCfg) "a\nkeep();\nmore();\n<rm name='b'>stay</rm>\nz\n" = true := by
  decide +kernel

end Chiritori.Props.C19
