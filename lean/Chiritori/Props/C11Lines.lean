import Chiritori.Props.C11
import Chiritori.Lemmas.RespellLines
/-
  C11 in terms of line numbers (the line of a byte = the number of line breaks in front of it, `nlBefore`).

  `four_lines`: for an unwrap-block that is unwrapped and whose two tags contain no line break, with `L` the line of the
  opening tag and `M` the line of the closing tag:
    * every byte of the opening part lies on line `L` or `L + 1`, and the part ends exactly at the line break that ends
      line `L + 1` - it takes the opening tag (and what follows it on its line) and the whole next line;
    * every byte of the closing part lies on line `M - 1` or `M`, and the part begins exactly at the first byte of line
      `M - 1` - it takes the whole line in front of the closing tag's line and that line up to the end of the tag;
    * `L + 2 ≤ M - 1` (the two wrapper lines are different lines; `L + 2 = M - 1` is the case of no inner line), and
      every byte on a line strictly between `L + 1` and `M - 1` lies in neither part: the inner lines survive the
      removal.
  So the lines that lose text to the removal are `L`, `L + 1`, `M - 1`, `M` and no other.
-/
namespace Chiritori.Props.C11
open Chiritori Chiritori.Spec

theorem nlBefore_succ (b : Bytes) (p : Nat) :
    nlBefore b (p + 1) = nlBefore b p + (if b[p]? = some NL then 1 else 0) := by
  unfold nlBefore
  by_cases hp : p < b.length
  · rw [List.take_succ_eq_append_getElem hp, List.count_append]
    simp only [List.getElem?_eq_getElem hp, Option.some.injEq]
    by_cases h : b[p] = NL <;> simp [h]
  · have h1 : b.take (p + 1) = b := List.take_of_length_le (by omega)
    have h2 : b.take p = b := List.take_of_length_le (by omega)
    have h3 : b[p]? = none := List.getElem?_eq_none (by omega)
    rw [h1, h2, h3]
    simp

theorem nlBefore_mono (b : Bytes) : ∀ (a c : Nat), a ≤ c → nlBefore b a ≤ nlBefore b c := by
  intro a c h
  induction c with
  | zero => have : a = 0 := by omega
            rw [this]; exact Nat.le_refl _
  | succ c ih =>
    by_cases hac : a = c + 1
    · rw [hac]; exact Nat.le_refl _
    · have := ih (by omega)
      rw [nlBefore_succ]
      omega

/-- no line break in `[a, c)`: `a` and `c` lie on the same line -/
theorem nlBefore_const (b : Bytes) : ∀ (a c : Nat), a ≤ c → (∀ i, a ≤ i → i < c → b[i]? ≠ some NL) →
    nlBefore b c = nlBefore b a := by
  intro a c h hno
  induction c with
  | zero => have : a = 0 := by omega
            rw [this]
  | succ c ih =>
    by_cases hac : a = c + 1
    · rw [hac]
    · rw [nlBefore_succ, ih (by omega) (fun i h1 h2 => hno i h1 (by omega))]
      have := hno c (by omega) (by omega)
      simp [this]

/-- a line break at `p`: the byte behind it lies on the next line -/
theorem nlBefore_after_nl (b : Bytes) (p : Nat) (h : b[p]? = some NL) : nlBefore b (p + 1) = nlBefore b p + 1 := by
  rw [nlBefore_succ, if_pos h]

theorem four_lines (b : Bytes) (st en : Token) (h t : Rng) (h0 : 0 < st.bstop) (hlen : en.bstart ≤ b.length)
    (hst : st.bstart ≤ st.bstop)
    (hnl1 : ∀ i, st.bstart ≤ i → i < st.bstop → b[i]? ≠ some NL)
    (hnl2 : ∀ i, en.bstart ≤ i → i < en.bstop → b[i]? ≠ some NL)
    (hu : unwrapParts b st en = some (h, t)) :
    -- the opening part: lines L and L + 1, up to the line break that ends line L + 1
    (∀ i, h.1 ≤ i → i < h.2 → nlBefore b i = nlBefore b st.bstart ∨ nlBefore b i = nlBefore b st.bstart + 1) ∧
    b[h.2]? = some NL ∧ nlBefore b h.2 = nlBefore b st.bstart + 1 ∧
    -- the closing part: lines M - 1 and M, from the first byte of line M - 1
    (∀ i, t.1 ≤ i → i < t.2 → nlBefore b i + 1 = nlBefore b en.bstart ∨ nlBefore b i = nlBefore b en.bstart) ∧
    0 < t.1 ∧ b[t.1 - 1]? = some NL ∧ nlBefore b t.1 + 1 = nlBefore b en.bstart ∧
    -- at least two lines between the tag lines; the lines strictly between the wrapper lines survive
    nlBefore b st.bstart + 2 ≤ nlBefore b t.1 ∧
    (∀ i, nlBefore b st.bstart + 1 < nlBefore b i → nlBefore b i + 1 < nlBefore b en.bstart → ¬ (h.1 ≤ i ∧ i < h.2) ∧ ¬ (t.1 ≤ i ∧ i < t.2)) := by
  obtain ⟨p1, q1, a1, a2, a3, a4, a5, a6, c1, c2, c3, c4, c5, c6, e1, e2, e3⟩ := parts_lines b st en h t h0 hlen hu
  -- lines of the landmarks
  have l_stop : nlBefore b st.bstop = nlBefore b st.bstart := nlBefore_const b _ _ hst hnl1
  have l_p1 : nlBefore b p1 = nlBefore b st.bstart := by rw [nlBefore_const b _ _ a1 a3, l_stop]
  have l_p1' : nlBefore b (p1 + 1) = nlBefore b st.bstart + 1 := by rw [nlBefore_after_nl b p1 a2, l_p1]
  have l_h2 : nlBefore b h.2 = nlBefore b st.bstart + 1 := by
    rw [nlBefore_const b (p1 + 1) h.2 (by omega) (fun i h1 h2 => a6 i (by omega) h2), l_p1']
  have l_q1' : nlBefore b en.bstart = nlBefore b (q1 + 1) :=
    nlBefore_const b (q1 + 1) en.bstart (by omega) (fun i h1 h2 => c3 i (by omega) h2)
  have l_q1 : nlBefore b (q1 + 1) = nlBefore b q1 + 1 := nlBefore_after_nl b q1 c2
  have l_t1 : nlBefore b q1 = nlBefore b t.1 := nlBefore_const b t.1 q1 c4 c6
  have ht1pos : 0 < t.1 := by omega
  have l_t1' : nlBefore b t.1 = nlBefore b (t.1 - 1) + 1 := by
    have := nlBefore_after_nl b (t.1 - 1) c5
    rw [show t.1 - 1 + 1 = t.1 by omega] at this
    exact this
  have l_mid : nlBefore b (h.2 + 1) ≤ nlBefore b t.1 := nlBefore_mono b _ _ (by omega)
  have l_h2' : nlBefore b (h.2 + 1) = nlBefore b st.bstart + 2 := by rw [nlBefore_after_nl b h.2 a5, l_h2]
  refine ⟨?_, a5, l_h2, ?_, ht1pos, c5, by omega, by omega, ?_⟩
  · intro i hi1 hi2
    by_cases hip : i ≤ p1
    · left
      have h1 := nlBefore_mono b st.bstart i (by omega)
      have h2 := nlBefore_mono b i p1 hip
      omega
    · right
      have h1 := nlBefore_mono b (p1 + 1) i (by omega)
      have h2 := nlBefore_mono b i h.2 (by omega)
      omega
  · intro i hi1 hi2
    by_cases hiq : i ≤ q1
    · left
      have h1 := nlBefore_mono b t.1 i hi1
      have h2 := nlBefore_mono b i q1 hiq
      omega
    · right
      have h1 := nlBefore_mono b (q1 + 1) i (by omega)
      have h2 : nlBefore b i ≤ nlBefore b en.bstart := by
        by_cases hie : i ≤ en.bstart
        · exact nlBefore_mono b i en.bstart hie
        · rw [nlBefore_const b en.bstart i (by omega) (fun j j1 j2 => hnl2 j j1 (by omega))]
          exact Nat.le_refl _
      omega
  · intro i hi1 hi2
    constructor
    · intro ⟨g1, g2⟩
      have := nlBefore_mono b i h.2 (by omega)
      omega
    · intro ⟨g1, g2⟩
      have := nlBefore_mono b t.1 i g1
      omega

/-! an instance: four inner lines, the parts are lines 2-3 and 8-9 of a ten-line text -/
example :
    let s := "a\n  <rm name='a' unwrap-block>\n  if {\n1\n2\n3\n4\n  }\n  </rm>\nz\n".toList
    (match parseSource s "<".toList ">".toList with
     | [_, .element _ st en _, _] =>
       (match unwrapParts (bytesOf s) st en with
        | some (h, t) => (nlBefore (bytesOf s) h.1, nlBefore (bytesOf s) (h.2 - 1), nlBefore (bytesOf s) t.1, nlBefore (bytesOf s) (t.2 - 1)) == (1, 2, 7, 8)
        | none => false)
     | _ => false) = true := by decide +kernel

end Chiritori.Props.C11
