import Chiritori.Spec.Holds
namespace Chiritori.Props.C17
end Chiritori.Props.C17
