import Chiritori.Lemmas.Pending
import Chiritori.Lemmas.CollectAll
/-
  C17 — list_all = Ready regions + outstanding Pending regions, once each, in order.

  With R the regions of `list` (= what `clean` deletes) and P the merged regions of the registered, non-skipped
  elements whose condition does not hold (`pendingMarkers`; a pending region inside a larger default-strategy
  pending region is merged into it by `merge_markers`), `list_all` is:
    * every region of R, flagged Ready, in order (`ready_items`) - identical to `list`;
    * every region of P that no ready region swallows, flagged Pending, in order (`pending_items`);
    * the two interleaved in source order (`items_sorted`, under the nesting hypothesis `Laminar`: a pending
      region that is not swallowed and starts before a ready region ends starts no later than that region).
  R and P are each sorted and disjoint (`regions_sorted`).
  Not yet proved: that P covers exactly the extents of the pending elements (the analogue of C02/C03's coverage
  theorem for the pending tree) and that `Laminar` always holds for the ranges the tree produces.
-/
namespace Chiritori.Props.C17
open Chiritori Chiritori.Spec

def readyMarkers (src ds de : List Char) (cfg : Cfg) : List Marker :=
  buildRemoveMarker cfg (bytesOf src) (parseSource src ds de)

def pendingMarkers (src ds de : List Char) (cfg : Cfg) : List Marker :=
  mergeMarkers (collect cfg (bytesOf src) true (parseSource src ds de)).2 []

theorem listAll_eq (src ds de : List Char) (cfg : Cfg) :
    listAllMarkers src ds de cfg = mergePending (readyMarkers src ds de cfg) (pendingMarkers src ds de cfg) := by
  unfold listAllMarkers buildRemoveMarkerAll readyMarkers pendingMarkers buildRemoveMarker
  rw [← collect_ready_indep]

/-- every Ready region exactly once, identical to the plain list -/
theorem ready_items (src ds de : List Char) (cfg : Cfg) :
    (listAllMarkers src ds de cfg).filter (·.2) = listMarkers src ds de cfg := by
  rw [listAll_eq, mergePending_ready]
  rfl

theorem regions_sorted (src ds de : List Char) (cfg : Cfg) (hde : de ≠ []) :
    MSorted (readyMarkers src ds de cfg) 0 (blen src) ∧ MSorted (pendingMarkers src ds de cfg) 0 (blen src) := by
  refine ⟨(buildRemoveMarker_spec src ds de cfg hde).1, ?_⟩
  obtain ⟨hok, _⟩ := tokenize_ok src ds de hde
  have hfl : flattenParts (parseSource src ds de) = tokenize src ds de := parse_flatten ds de _
  have hspan : BSpan (flattenParts (parseSource src ds de)) 0 (blen src) := by
    have := BSpan_of_chain _ 0 0 hok.chain
    rw [hok.flatEq, Nat.zero_add] at this
    rw [hfl]; exact this
  have hg := collect_pending_geo cfg (bytesOf src) _ 0 (blen src) hspan (by simp)
  exact (mergeMarkers_spec _ 0 (blen src) [] 0 hg (by simp [MSorted])).1

/-- the Pending items: the pending regions not lying wholly inside a Ready region, in order -/
theorem pending_items (src ds de : List Char) (cfg : Cfg) (hde : de ≠ []) :
    (listAllMarkers src ds de cfg).filter (fun x => !x.2) =
      ((pendingMarkers src ds de cfg).filter fun p => !swallowed (readyMarkers src ds de cfg) p).map fun p => (p, false) := by
  obtain ⟨h1, h2⟩ := regions_sorted src ds de cfg hde
  rw [listAll_eq]
  exact mergePending_pending _ _ 0 (blen src) 0 (blen src) h1 h2

def Laminar (ready pending : List Marker) : Prop :=
  ∀ r ∈ ready, ∀ p ∈ pending, p.start < r.stop → squashes r p = false → p.start ≤ r.start

theorem items_sorted (src ds de : List Char) (cfg : Cfg) (hde : de ≠ [])
    (hl : Laminar (readyMarkers src ds de cfg) (pendingMarkers src ds de cfg)) :
    StartsSorted (listAllMarkers src ds de cfg) 0 := by
  obtain ⟨h1, h2⟩ := regions_sorted src ds de cfg hde
  rw [listAll_eq]
  exact mergePending_sorted _ _ 0 (blen src) 0 (blen src) 0 h1 h2 (Nat.le_refl _) (fun _ _ => Nat.zero_le _) hl

/-- the general merge facts, for any two sorted lists (what the D12 repair restored) -/
theorem merge_facts (ready pending : List Marker) (lo hi lo' hi' : Nat)
    (h1 : MSorted ready lo hi) (h2 : MSorted pending lo' hi') :
    (mergePending ready pending).filter (·.2) = ready.map (fun r => (r, true)) ∧
    (mergePending ready pending).filter (fun x => !x.2) =
      (pending.filter fun p => !swallowed ready p).map fun p => (p, false) :=
  ⟨mergePending_ready ready pending, mergePending_pending ready pending lo hi lo' hi' h1 h2⟩

/-! Kernel-evaluated instance: two pending ranges before a ready one and two inside it (the D12 witness shape). -/
def mk (a b : Nat) : Marker := ⟨a, b, none⟩
example : (mergePending [mk 20 40] [mk 0 5, mk 6 9, mk 22 25, mk 30 35, mk 50 60]).map (fun x => (x.1.start, x.2))
    = [(0, false), (6, false), (20, true), (50, false)] := by decide +kernel

end Chiritori.Props.C17
