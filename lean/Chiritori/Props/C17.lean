import Chiritori.Lemmas.Pending
import Chiritori.Lemmas.CollectAll
import Chiritori.Lemmas.PendingCover
import Chiritori.Lemmas.Laminar
import Chiritori.Lemmas.Exact
/-
  C17 — list_all = Ready regions + outstanding Pending regions, once each, in order.

  With R the regions of `list` (= what `clean` deletes) and P the merged regions of the registered, non-skipped
  elements whose condition does not hold (`pendingMarkers`; a pending region inside a larger default-strategy
  pending region is merged into it by `merge_markers`), `list_all` is:
    * every region of R, flagged Ready, in order (`ready_items`) - identical to `list`;
    * every region of P that no ready region swallows, flagged Pending, in order (`pending_items`);
    * the two interleaved in source order (`items_sorted`, under the nesting hypothesis `Laminar`: a pending
      region that is not swallowed and starts before a ready region ends starts no later than that region).
  R and P are each sorted and disjoint (`regions_sorted`).
  `pending_cover`: P covers exactly the extents of the pending elements (every source).
  In the space the property quantifies over - no tag on a wrapper line of an unwrappable unwrap-block, `WrapFree`
  (decidable form `wrapFreeB`) - `laminar_of_wrapFree` discharges the nesting hypothesis, `regions_exact` gives R
  and P item by item (`refRegions`), and `c17` is the whole statement.  Outside that space the order clause is
  false of the code (kernel-evaluated witness `srcBad`: a pending element starting on the opening wrapper line of
  a ready unwrap-block is listed before the ready part it starts in); the property does not quantify over it.
-/
namespace Chiritori.Props.C17
open Chiritori Chiritori.Spec

def readyMarkers (src ds de : List Char) (cfg : Cfg) : List Marker :=
  buildRemoveMarker cfg (bytesOf src) (parseSource src ds de)

def pendingMarkers (src ds de : List Char) (cfg : Cfg) : List Marker :=
  mergeMarkers (collect cfg (bytesOf src) true (parseSource src ds de)).2 []

theorem listAll_eq (src ds de : List Char) (cfg : Cfg) :
    listAllMarkers src ds de cfg = mergePending (readyMarkers src ds de cfg) (pendingMarkers src ds de cfg) := by
  unfold listAllMarkers buildRemoveMarkerAll readyMarkers pendingMarkers buildRemoveMarker
  rw [← collect_ready_indep]

/-- every Ready region exactly once, identical to the plain list -/
theorem ready_items (src ds de : List Char) (cfg : Cfg) :
    (listAllMarkers src ds de cfg).filter (·.2) = listMarkers src ds de cfg := by
  rw [listAll_eq, mergePending_ready]
  rfl

theorem regions_sorted (src ds de : List Char) (cfg : Cfg) (hde : de ≠ []) :
    MSorted (readyMarkers src ds de cfg) 0 (blen src) ∧ MSorted (pendingMarkers src ds de cfg) 0 (blen src) := by
  refine ⟨(buildRemoveMarker_spec src ds de cfg hde).1, ?_⟩
  obtain ⟨hok, _⟩ := tokenize_ok src ds de hde
  have hfl : flattenParts (parseSource src ds de) = tokenize src ds de := parse_flatten ds de _
  have hspan : BSpan (flattenParts (parseSource src ds de)) 0 (blen src) := by
    have := BSpan_of_chain _ 0 0 hok.chain
    rw [hok.flatEq, Nat.zero_add] at this
    rw [hfl]; exact this
  have hg := collect_pending_geo cfg (bytesOf src) _ 0 (blen src) hspan (by simp)
  exact (mergeMarkers_spec _ 0 (blen src) [] 0 hg (by simp [MSorted])).1

/-- the pending regions cover exactly the extents of the elements that are registered, not skipped and whose
    condition does not hold (for an unwrap-block: its two parts; nothing when it cannot be unwrapped) -/
theorem pending_cover (src ds de : List Char) (cfg : Cfg) (hde : de ≠ []) :
    ∀ i, mcov (pendingMarkers src ds de cfg) i ↔
      inAny (pendingExtents cfg (bytesOf src) (parseSource src ds de)) i = true := by
  obtain ⟨hok, _⟩ := tokenize_ok src ds de hde
  have hfl : flattenParts (parseSource src ds de) = tokenize src ds de := parse_flatten ds de _
  have hspan : BSpan (flattenParts (parseSource src ds de)) 0 (blen src) := by
    have := BSpan_of_chain _ 0 0 hok.chain
    rw [hok.flatEq, Nat.zero_add] at this
    rw [hfl]; exact this
  have hg := collect_pending_geo cfg (bytesOf src) _ 0 (blen src) hspan (by simp)
  have hc := collect_pending_cov cfg (bytesOf src) _ 0 (blen src) hspan (by simp)
  obtain ⟨_, hm⟩ := mergeMarkers_spec _ 0 (blen src) [] 0 hg (by simp [MSorted])
  intro i
  unfold pendingMarkers
  rw [hm i, hc i, pendingExtents_eq]
  simp [mcov]

/-- the Pending items: the pending regions not lying wholly inside a Ready region, in order -/
theorem pending_items (src ds de : List Char) (cfg : Cfg) (hde : de ≠ []) :
    (listAllMarkers src ds de cfg).filter (fun x => !x.2) =
      ((pendingMarkers src ds de cfg).filter fun p => !swallowed (readyMarkers src ds de cfg) p).map fun p => (p, false) := by
  obtain ⟨h1, h2⟩ := regions_sorted src ds de cfg hde
  rw [listAll_eq]
  exact mergePending_pending _ _ 0 (blen src) 0 (blen src) h1 h2

def Laminar (ready pending : List Marker) : Prop :=
  ∀ r ∈ ready, ∀ p ∈ pending, p.start < r.stop → squashes r p = false → p.start ≤ r.start

theorem items_sorted (src ds de : List Char) (cfg : Cfg) (hde : de ≠ [])
    (hl : Laminar (readyMarkers src ds de cfg) (pendingMarkers src ds de cfg)) :
    StartsSorted (listAllMarkers src ds de cfg) 0 := by
  obtain ⟨h1, h2⟩ := regions_sorted src ds de cfg hde
  rw [listAll_eq]
  exact mergePending_sorted _ _ 0 (blen src) 0 (blen src) 0 h1 h2 (Nat.le_refl _) (fun _ _ => Nat.zero_le _) hl

/-- in a document without tags on wrapper lines (the C15 space) the two region lists are laminar -/
theorem laminar_of_wrapFree (src ds de : List Char) (cfg : Cfg) (hde : de ≠ [])
    (hw : WrapFree (bytesOf src) (parseSource src ds de)) :
    Laminar (readyMarkers src ds de cfg) (pendingMarkers src ds de cfg) := by
  obtain ⟨hok, _⟩ := tokenize_ok src ds de hde
  have hfl : flattenParts (parseSource src ds de) = tokenize src ds de := parse_flatten ds de _
  have hspan : BSpan (flattenParts (parseSource src ds de)) 0 (blen src) := by
    have := BSpan_of_chain _ 0 0 hok.chain
    rw [hok.flatEq, Nat.zero_add] at this
    rw [hfl]; exact this
  have hl := collect_lam cfg (bytesOf src) _ 0 (blen src) hspan (by simp) hw
  rw [collect_ready_indep] at hl
  intro r hr p hp h1 h2
  have := hl (r.start, r.stop) (by simp only [rangesOf, List.mem_map]; exact ⟨r, hr, rfl⟩)
    (p.start, p.stop) (by simp only [rangesOf, List.mem_map]; exact ⟨p, hp, rfl⟩) h1
  apply this
  intro hc
  simp [squashes, hc.1, hc.2.1, hc.2.2.1, hc.2.2.2] at h2

/-- C17, order clause: in such a document the items of the full listing appear in source order -/
theorem items_sorted_wrapFree (src ds de : List Char) (cfg : Cfg) (hde : de ≠ [])
    (hw : WrapFree (bytesOf src) (parseSource src ds de)) :
    StartsSorted (listAllMarkers src ds de cfg) 0 :=
  items_sorted src ds de cfg hde (laminar_of_wrapFree src ds de cfg hde hw)

/-- item level: the two region lists are the reference regions of the ready / of the pending elements -/
theorem regions_exact (src ds de : List Char) (cfg : Cfg) (hde : de ≠ [])
    (hw : WrapFree (bytesOf src) (parseSource src ds de)) :
    rangesOf (readyMarkers src ds de cfg) = refRegions (conditionHolds cfg) (bytesOf src) (parseSource src ds de) ∧
    rangesOf (pendingMarkers src ds de cfg) = refRegions (conditionPending cfg) (bytesOf src) (parseSource src ds de) := by
  obtain ⟨hok, _⟩ := tokenize_ok src ds de hde
  have hfl : flattenParts (parseSource src ds de) = tokenize src ds de := parse_flatten ds de _
  have hspan : BSpan (flattenParts (parseSource src ds de)) 0 (blen src) := by
    have := BSpan_of_chain _ 0 0 hok.chain
    rw [hok.flatEq, Nat.zero_add] at this
    rw [hfl]; exact this
  have h := collect_exact cfg (bytesOf src) _ 0 (blen src) hspan (by simp) hw
  rw [collect_ready_indep] at h
  exact h

/-- C17 in the space it quantifies over (no tag on a wrapper line): the full listing is
    (1) every Ready region exactly once - the plain list - flagged Ready;
    (2) flagged Pending, every region of `pendingMarkers` that no Ready region swallows;
    (3) where the Ready regions are the reference regions of the elements whose condition holds and
        `pendingMarkers` those of the registered, non-skipped elements whose condition does not hold (nothing from
        inside a default-strategy region of the same status; nothing for skip / unregistered / un-unwrappable);
    (4) in source order. -/
theorem c17 (src ds de : List Char) (cfg : Cfg) (hde : de ≠ [])
    (hw : WrapFree (bytesOf src) (parseSource src ds de)) :
    (listAllMarkers src ds de cfg).filter (·.2) = listMarkers src ds de cfg ∧
    (listAllMarkers src ds de cfg).filter (fun x => !x.2) =
      ((pendingMarkers src ds de cfg).filter fun p => !swallowed (readyMarkers src ds de cfg) p).map (fun p => (p, false)) ∧
    rangesOf (readyMarkers src ds de cfg) = refRegions (conditionHolds cfg) (bytesOf src) (parseSource src ds de) ∧
    rangesOf (pendingMarkers src ds de cfg) = refRegions (conditionPending cfg) (bytesOf src) (parseSource src ds de) ∧
    StartsSorted (listAllMarkers src ds de cfg) 0 :=
  ⟨ready_items src ds de cfg, pending_items src ds de cfg hde,
   (regions_exact src ds de cfg hde hw).1, (regions_exact src ds de cfg hde hw).2,
   items_sorted_wrapFree src ds de cfg hde hw⟩

/-! ### the predicate the check evaluates on the implementation's output (`Spec.c17Holds`) is a theorem of the model -/

theorem filter_map_items (L : List (Marker × Bool)) (q : Bool → Bool) :
    ((L.map fun x => (x.1.start, x.1.stop, x.2)).filter (fun x => q x.2.2)).map (fun x => (x.1, x.2.1)) =
      (L.filter (fun x => q x.2)).map (fun x => (x.1.start, x.1.stop)) := by
  induction L with
  | nil => rfl
  | cons a as ih =>
    simp only [List.map_cons, List.filter_cons]
    cases q a.2 <;> simp [ih]

theorem swallowed_eq (ready : List Marker) (p : Marker) :
    swallowed ready p = swallowedBy (rangesOf ready) (p.start, p.stop) := by
  simp only [swallowed, swallowedBy, rangesOf, List.any_map]
  rfl

theorem startsSortedB_of (L : List (Marker × Bool)) (lo : Nat) (h : StartsSorted L lo) :
    startsSortedB (L.map fun x => (x.1.start, x.1.stop, x.2)) lo = true := by
  induction L generalizing lo with
  | nil => rfl
  | cons a as ih =>
    obtain ⟨h1, h2⟩ := h
    simp only [List.map_cons, startsSortedB, Bool.and_eq_true, decide_eq_true_eq]
    exact ⟨h1, ih _ h2⟩

theorem c17Holds_model (src ds de : List Char) (cfg : Cfg) (hde : de ≠ [])
    (hw : wrapFreeB (bytesOf src) (parseSource src ds de) = true) :
    c17Holds src ds de cfg ((listAllMarkers src ds de cfg).map fun x => (x.1.start, x.1.stop, x.2)) = true := by
  obtain ⟨h1, h2, h3, h4, h5⟩ := c17 src ds de cfg hde (wrapFreeB_sound _ _ hw)
  unfold c17Holds
  simp only [Bool.and_eq_true, beq_iff_eq]
  refine ⟨⟨?_, ?_⟩, startsSortedB_of _ 0 h5⟩
  · have := filter_map_items (listAllMarkers src ds de cfg) id
    simp only [id] at this
    rw [this, h1, ← h3]
    simp [listMarkers, readyMarkers, rangesOf, List.map_map]
  · have := filter_map_items (listAllMarkers src ds de cfg) (fun b => !b)
    rw [this, h2, ← h3, ← h4]
    simp only [List.map_map, rangesOf, List.filter_map]
    congr 1
    apply List.filter_congr
    intro p _
    simp only [Function.comp, swallowed_eq, rangesOf]

/-- ... and the hypothesis is needed: with a pending element that starts on the opening wrapper line of a ready
    unwrap-block and ends behind it, the pending item is listed *before* the ready part it starts in -/
def cfgL : Cfg := ⟨"tl".toList, "rm".toList, 1577836800, 0, "+00:00".toList, ["a".toList]⟩
def srcBad : List Char := "<rm name='a' unwrap-block>\n{ <rm name='b'>\nx\n</rm>\ny\n}\n</rm>\n".toList
def srcGood : List Char := "<rm name='a' unwrap-block>\n{\n<rm name='b'>\nx\n</rm>\ny\n}\n</rm>\n<rm name='b'>\n<rm name='a'>\nz\n</rm>\n</rm>\n".toList
example : wrapFreeB (bytesOf srcBad) (parseSource srcBad "<".toList ">".toList) = false := by decide +kernel
example : (listAllMarkers srcBad "<".toList ">".toList cfgL).map (fun x => (x.1.start, x.2))
    = [(29, false), (0, true), (53, true)] := by decide +kernel
example : wrapFreeB (bytesOf srcGood) (parseSource srcGood "<".toList ">".toList) = true := by decide +kernel
example : (listAllMarkers srcGood "<".toList ">".toList cfgL).map (fun x => (x.1.start, x.2))
    = [(0, true), (29, false), (53, true), (61, false), (75, true)] := by decide +kernel

/-- the general merge facts, for any two sorted lists (what the D12 repair restored) -/
theorem merge_facts (ready pending : List Marker) (lo hi lo' hi' : Nat)
    (h1 : MSorted ready lo hi) (h2 : MSorted pending lo' hi') :
    (mergePending ready pending).filter (·.2) = ready.map (fun r => (r, true)) ∧
    (mergePending ready pending).filter (fun x => !x.2) =
      (pending.filter fun p => !swallowed ready p).map fun p => (p, false) :=
  ⟨mergePending_ready ready pending, mergePending_pending ready pending lo hi lo' hi' h1 h2⟩

/-! Kernel-evaluated instance: two pending ranges before a ready one and two inside it (the D12 witness shape). -/
def mk (a b : Nat) : Marker := ⟨a, b, none⟩
example : (mergePending [mk 20 40] [mk 0 5, mk 6 9, mk 22 25, mk 30 35, mk 50 60]).map (fun x => (x.1.start, x.2))
    = [(0, false), (6, false), (20, true), (50, false)] := by decide +kernel

end Chiritori.Props.C17
