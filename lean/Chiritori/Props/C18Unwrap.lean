import Chiritori.Props.C19Unwrap
import Chiritori.Props.C18End
/-
  C18 with unwrapped blocks, at the level of tags: one piece list under two delimiter pairs (no stray tags, tags without
  line breaks, every ready unwrap-block unwrappable and free of tags on its wrapper lines - under both spellings) is
  cleaned to two well-delimited texts with the same tags in the same order.
-/
namespace Chiritori.Props.C18
open Chiritori Chiritori.Spec Chiritori.Props.C19

/-- the bodies of the tag pieces, in order -/
def tagBodies : List Piece → List (List Char)
  | [] => []
  | .text _ :: ps => tagBodies ps
  | .tag b0 rest :: ps => (b0 :: rest) :: tagBodies ps

theorem tagsOf_eq_map (ds de : List Char) : ∀ (ps : List Piece),
    tagsOf ds de ps = (tagBodies ps).map fun b => ds ++ b ++ de
  | [] => rfl
  | .text _ :: ps => by simp [tagsOf, tagBodies, tagsOf_eq_map ds de ps]
  | .tag b0 rest :: ps => by simp [tagsOf, tagBodies, tagsOf_eq_map ds de ps]

section
variable (ds de ds' de' : List Char) (R : Token → Token → Prop)

mutual
theorem splice_x (P : Element → Bool) : ∀ (a b : List Part), partsX ds de ds' de' R a b →
    partsX ds de ds' de' R (spliceParts P a) (spliceParts P b)
  | [], [], _ => trivial
  | [], _ :: _, h => absurd h (by simp [partsX])
  | _ :: _, [], h => absurd h (by simp [partsX])
  | p :: ps, q :: qs, h => by
    simp only [partsX] at h
    simp only [spliceParts]
    exact partsX_append ds de ds' de' R _ _ _ _ (splicePart_x P p q h.1) (splice_x P ps qs h.2)
theorem splicePart_x (P : Element → Bool) : ∀ (p q : Part), partX ds de ds' de' R p q →
    partsX ds de ds' de' R (splicePart P p) (splicePart P q)
  | .text t, .text u, h => by simp only [partX] at h; simp only [splicePart, partsX, partX]; exact ⟨h, trivial⟩
  | .text _, .element _ _ _ _, h => absurd h (by simp [partX])
  | .element _ _ _ _, .text _, h => absurd h (by simp [partX])
  | .element el st en ch, .element el' st' en' ch', h => by
    simp only [partX] at h
    obtain ⟨h1, h2, h3, h4⟩ := h
    subst h1
    simp only [splicePart]
    split
    · exact splice_x P ch ch' h4
    · simp only [partsX, partX]
      exact ⟨⟨trivial, h2, h3, splice_x P ch ch' h4⟩, trivial⟩
end

/-- corresponding token lists have tag tokens with the same bodies -/
theorem tagBodies_x : ∀ (A B : List Token), TokXs ds de ds' de' R A B →
    ∃ bodies : List (List Char), tagValues A = bodies.map (fun b => ds ++ b ++ de) ∧
      tagValues B = bodies.map (fun b => ds' ++ b ++ de')
  | [], [], _ => ⟨[], rfl, rfl⟩
  | [], _ :: _, h => absurd h (by simp [TokXs])
  | _ :: _, [], h => absurd h (by simp [TokXs])
  | t :: ts, u :: us, h => by
    simp only [TokXs] at h
    obtain ⟨⟨⟨hk, hx⟩, _⟩, hrest⟩ := h
    obtain ⟨bodies, e1, e2⟩ := tagBodies_x ts us hrest
    have hc1 : tagValues (t :: ts) = (if t.kind = .element then [t.value] else []) ++ tagValues ts := by
      unfold tagValues
      by_cases hkk : t.kind = .element <;> simp [List.filter_cons, hkk]
    have hc2 : tagValues (u :: us) = (if u.kind = .element then [u.value] else []) ++ tagValues us := by
      unfold tagValues
      by_cases hkk : u.kind = .element <;> simp [List.filter_cons, hkk]
    rcases hx with ⟨hkt, _⟩ | ⟨hkt, body, _, hv, hv', _, _⟩
    · have hku : u.kind = .text := by rw [← hk]; exact hkt
      refine ⟨bodies, ?_, ?_⟩
      · rw [hc1, hkt]; simpa using e1
      · rw [hc2, hku]; simpa using e2
    · have hku : u.kind = .element := by rw [← hk]; exact hkt
      refine ⟨body :: bodies, ?_, ?_⟩
      · rw [hc1, hkt, e1, hv]; simp
      · rw [hc2, hku, e2, hv']; simp

end

theorem map_wrap_inj (ds de : List Char) : ∀ (a b : List (List Char)),
    a.map (fun x => ds ++ x ++ de) = b.map (fun x => ds ++ x ++ de) → a = b
  | [], [], _ => rfl
  | [], _ :: _, h => by simp at h
  | _ :: _, [], h => by simp at h
  | x :: xs, y :: ys, h => by
    simp only [List.map_cons, List.cons.injEq] at h
    obtain ⟨h1, h2⟩ := h
    rw [List.append_assoc, List.append_assoc] at h1
    have := List.append_cancel_right (List.append_cancel_left h1)
    rw [this, map_wrap_inj ds de xs ys h2]

/-- C18 with unwrapped blocks, tags: the two spellings of one document are cleaned to well-delimited texts with the same
    tags in the same order -/
theorem respell_tags_unwrap (d0 : Char) (dr : List Char) (e0 : Char) (er : List Char)
    (d0' : Char) (dr' : List Char) (e0' : Char) (er' : List Char)
    (hd0 : wsChar d0 = false) (hel : ∀ w c, (e0 :: er) = w ++ [c] → wsChar c = false)
    (hd0' : wsChar d0' = false) (hel' : ∀ w c, (e0' :: er') = w ++ [c] → wsChar c = false)
    (ps : List Piece)
    (hfit : ∀ p ∈ ps, p.fits d0 e0 (d0 :: dr) (e0 :: er) ∧ p.fits d0' e0' (d0' :: dr') (e0' :: er'))
    (cfg : Cfg) (out out' : List Char)
    (htag : ∀ t ∈ tokenize (renderAll (d0 :: dr) (e0 :: er) ps) (d0 :: dr) (e0 :: er), t.kind = .element →
      ∀ c ∈ t.value, c ≠ '\n')
    (htag' : ∀ t ∈ tokenize (renderAll (d0' :: dr') (e0' :: er') ps) (d0' :: dr') (e0' :: er'), t.kind = .element →
      ∀ c ∈ t.value, c ≠ '\n')
    (htext : TextsAreText (parseSource (renderAll (d0 :: dr) (e0 :: er) ps) (d0 :: dr) (e0 :: er)))
    (htext' : TextsAreText (parseSource (renderAll (d0' :: dr') (e0' :: er') ps) (d0' :: dr') (e0' :: er')))
    (hshape : ReadyShape cfg (bytesOf (renderAll (d0 :: dr) (e0 :: er) ps))
      (parseSource (renderAll (d0 :: dr) (e0 :: er) ps) (d0 :: dr) (e0 :: er)))
    (hshape' : ReadyShape cfg (bytesOf (renderAll (d0' :: dr') (e0' :: er') ps))
      (parseSource (renderAll (d0' :: dr') (e0' :: er') ps) (d0' :: dr') (e0' :: er')))
    (h : clean (renderAll (d0 :: dr) (e0 :: er) ps) (d0 :: dr) (e0 :: er) cfg = .ok out)
    (h' : clean (renderAll (d0' :: dr') (e0' :: er') ps) (d0' :: dr') (e0' :: er') cfg = .ok out') :
    ∃ qs qs', out = renderAll (d0 :: dr) (e0 :: er) qs ∧ out' = renderAll (d0' :: dr') (e0' :: er') qs' ∧
      (∀ p ∈ qs, p.ok d0 e0) ∧ (∀ p ∈ qs', p.ok d0' e0') ∧ tagBodies qs = tagBodies qs' := by
  have hok : ∀ p ∈ ps, p.ok d0 e0 := fun p hp => Piece.ok_of_fits _ _ _ _ p (hfit p hp).1
  have hok' : ∀ p ∈ ps, p.ok d0' e0' := fun p hp => Piece.ok_of_fits _ _ _ _ p (hfit p hp).2
  obtain ⟨qs, q1, hout, q3⟩ := clean_shape_u d0 dr e0 er hd0 hel ps hok cfg out htag h
  obtain ⟨qs', q1', hout', q3'⟩ := clean_shape_u d0' dr' e0' er' hd0' hel' ps hok' cfg out' htag' h'
  refine ⟨qs, qs', hout, hout', q1, q1', ?_⟩
  -- the forests correspond
  have hT := tokXs_of_tnorm (d0 :: dr) (e0 :: er) (d0' :: dr') (e0' :: er') ps [] _ _
    (fun p hp => ⟨Piece.strip_of_fits _ _ _ _ p (hfit p hp).1, Piece.strip_of_fits _ _ _ _ p (hfit p hp).2⟩)
    (tokens_tnorm d0 dr e0 er ps hok) (tokens_tnorm d0' dr' e0' er' ps hok')
  have hG := parse_x (d0 :: dr) (e0 :: er) (d0' :: dr') (e0' :: er') (fun _ _ => True) (by simp) (by simp) (by simp) (by simp) _ _ hT
  -- the tags that are left, on each side
  have key : ∀ (c0 : Char) (cr : List Char) (f0 : Char) (fr : List Char) (src : List Char) (zs : List Piece),
      TextsAreText (parseSource src (c0 :: cr) (f0 :: fr)) →
      ReadyShape cfg (bytesOf src) (parseSource src (c0 :: cr) (f0 :: fr)) →
      tagsOf (c0 :: cr) (f0 :: fr) zs = tagValues ((tokenize src (c0 :: cr) (f0 :: fr)).filter
        (keepTok (extentsOfSource src (c0 :: cr) (f0 :: fr) cfg))) →
      tagsOf (c0 :: cr) (f0 :: fr) zs = tagValues (flattenParts (spliceParts (isUnwrapReady cfg)
        (pruneParts (isDefaultReady cfg) (parseSource src (c0 :: cr) (f0 :: fr))))) := by
    intro c0 cr f0 fr src zs ht hs hz
    have hde : (f0 :: fr) ≠ [] := by simp
    obtain ⟨hokT, _⟩ := tokenize_ok src (c0 :: cr) (f0 :: fr) hde
    have hfl : flattenParts (parseSource src (c0 :: cr) (f0 :: fr)) = tokenize src (c0 :: cr) (f0 :: fr) := parse_flatten _ _ _
    have hoks : OKS (c0 :: cr) (f0 :: fr) [] (parseSource src (c0 :: cr) (f0 :: fr)) := parse_OKS _ _ _
    have hspan : BSpan (flattenParts (parseSource src (c0 :: cr) (f0 :: fr))) 0 (blen src) := by
      have := BSpan_of_chain _ 0 0 hokT.chain
      rw [hokT.flatEq, Nat.zero_add] at this
      rw [hfl]; exact this
    have hns := noStray_of_OKS _ _ _ [] hoks ht
    have hkept := kept_tags cfg (bytesOf src) (extentsOfSource src (c0 :: cr) (f0 :: fr) cfg)
      (parseSource src (c0 :: cr) (f0 :: fr)) 0 (blen src) hspan (by simp) hns hs (by
        intro t _ _
        unfold extentsOfSource
        rw [readyExtents_eq])
    rw [hz]
    unfold tagValues
    have e1 : ∀ (L : List Token), L.filter (fun t => decide (t.kind = .element)) = L.filter isTagTok := fun _ => rfl
    rw [e1 (flattenParts _), hkept, hfl, List.filter_filter]
    congr 1
  have k1 := key d0 dr e0 er _ qs htext hshape q3
  have k2 := key d0' dr' e0' er' _ qs' htext' hshape' q3'
  have hx := flatten_x _ _ _ _ _ _ _ (splice_x _ _ _ _ _ (isUnwrapReady cfg) _ _
    (prune_x _ _ _ _ _ (isDefaultReady cfg) _ _ hG))
  obtain ⟨bodies, b1, b2⟩ := tagBodies_x _ _ _ _ _ _ _ hx
  unfold parseSource at k1 k2
  rw [b1, tagsOf_eq_map] at k1
  rw [b2, tagsOf_eq_map] at k2
  rw [map_wrap_inj _ _ _ _ k1, map_wrap_inj _ _ _ _ k2]

end Chiritori.Props.C18
