import Chiritori.Spec.Holds
namespace Chiritori.Props.C01
end Chiritori.Props.C01
