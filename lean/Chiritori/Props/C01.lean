import Chiritori.Lemmas.Totality
import Chiritori.Lemmas.ListTotal
/-
  C01 — Totality: clean, list and list_all never panic on any UTF-8 input.

  In the model every Rust panic site is an `Except.error` (slice / replace_range at a non-boundary or with
  start > end, `v[i]` out of range, `usize` subtraction below zero, the explicit `panic!` of EmptyLineRemover).
  `Statement` is the full property.  Proved: `c01_clean` (cleaning returns, for every source, every pair of
  non-empty delimiters and every configuration, and the result is a well-formed text).  The proof runs through
  every stage: tokens partition the source at character boundaries (C07), the parse forest contains every token
  once (C10), markers are sorted, disjoint, boundary-aligned and their pair indices are in range
  (`markers_facts`; this is where the repaired defects D3 and D10 sat), reverse deletion of such ranges cannot
  fail (`deleteAll_ok`), the positions handed to `format` are boundaries of the new text
  (`positions_boundary`), every formatter range is boundary-aligned whitespace (`formatCollect_ok`; D15 sat
  here), and overlapping ranges are merged into sorted disjoint ones whatever their order (`mergeOverlapped_spec`).
  The listing functions (`list_total`, `listAll_total`): every region handed to them - the ready markers, and
  for `list_all` also the merged pending markers that survive `mergePending` - is non-empty and boundary-aligned
  (`listMarkers_renderable`, `listAllMarkers_renderable`), and on such a region `build_pretty_string_item`
  cannot fail (`buildItem_total`: the line start found backwards is a boundary not behind the region start, the
  line end found forwards is a boundary not before `stop - 1`, the tab counts are bounded by the slice lengths,
  so none of the six slices and seven `usize` subtractions can fail).  `c01` is the full `Statement`.
  Outside every theorem: stack depth and allocation failure.
-/
namespace Chiritori.Props.C01
open Chiritori Chiritori.Spec

def isOk {α} : R α → Prop
  | .ok _ => True
  | .error _ => False

def Statement : Prop :=
  ∀ (src ds de : List Char) (cfg : Cfg), ds ≠ [] → de ≠ [] →
    isOk (clean src ds de cfg) ∧
    isOk (list src ds de cfg false) ∧ isOk (list src ds de cfg true) ∧
    isOk (listAll src ds de cfg false) ∧ isOk (listAll src ds de cfg true)

/-- cleaning never panics -/
theorem c01_clean (src ds de : List Char) (cfg : Cfg) (_ : ds ≠ []) (hde : de ≠ []) :
    ∃ out, clean src ds de cfg = .ok out := clean_total src ds de cfg hde

/-- ... and whatever it returns re-encodes to a well-formed byte string (valid UTF-8 in the abstraction) -/
theorem c01_clean_utf8 (src ds de : List Char) (cfg : Cfg) (out : List Char) (_ : clean src ds de cfg = .ok out) :
    wellFormed (bytesOf out) = true := by
  simp [wellFormed]

theorem isOk_of_ok {α} {x : R α} (h : ∃ r, x = .ok r) : isOk x := by
  obtain ⟨r, hr⟩ := h; rw [hr]; trivial

/-- C01, full statement: none of the five entry points can panic -/
theorem c01 : Statement := by
  intro src ds de cfg _ hde
  exact ⟨isOk_of_ok (clean_total src ds de cfg hde),
    isOk_of_ok (list_total src ds de cfg false hde), isOk_of_ok (list_total src ds de cfg true hde),
    isOk_of_ok (listAll_total src ds de cfg false hde), isOk_of_ok (listAll_total src ds de cfg true hde)⟩

/-- the facts about the markers that both listing functions start from -/
theorem c01_markers (src ds de : List Char) (cfg : Cfg) (hde : de ≠ []) :
    MSorted (buildRemoveMarker cfg (bytesOf src) (parseSource src ds de)) 0 (blen src) ∧
    MAll (BPos (bytesOf src)) (buildRemoveMarker cfg (bytesOf src) (parseSource src ds de)) :=
  ⟨(markers_facts src ds de cfg hde).1, (markers_facts src ds de cfg hde).2.1⟩

/-! Regression instances (kernel-evaluated): the witnesses of the repaired defects D1, D2, D3, D15. -/
def cfg0 : Cfg := ⟨"tl".toList, "rm".toList, 1577836800, 0, "+00:00".toList, ["a".toList]⟩
def okB {α} : R α → Bool
  | .ok _ => true
  | .error _ => false
example : okB (clean "\n<\nあ".toList "<".toList ">".toList cfg0) = true := by decide +kernel
example : okB (clean "x< >y".toList "<".toList ">".toList cfg0) = true := by decide +kernel
example : okB (clean "<tl to='2000-01-01 00:00:00' unwrap-block>\n<rm name='a'>\n{\n</rm>\n</tl>\nz\n".toList
    "<".toList ">".toList cfg0) = true := by decide +kernel
example : okB (clean "pre\n  a <tl to='2000-01-01 00:00:00' unwrap-block>\n{ <rm name='a'>\nx\n</rm>é  y\nbody\n}\n</tl>\n".toList
    "<".toList ">".toList cfg0) = true := by decide +kernel
example : okB (listAll "x< >y<rm name='b'>\n</rm>".toList "<".toList ">".toList cfg0 true) = true := by decide +kernel

end Chiritori.Props.C01
