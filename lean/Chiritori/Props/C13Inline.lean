import Chiritori.Props.C18Exact
import Chiritori.Props.C13Doc
/-
  Inline removals: a seam that stands inside a line, with text on both sides of it on that line, loses no whitespace -
  and when every seam of a document is of that kind (and no block is unwrapped) the output of `clean` is the text after
  removal, byte for byte.
-/
namespace Chiritori.Props.C13
open Chiritori Chiritori.Spec Chiritori.Props.C18

/-- `p` is a character boundary; in front of it only blanks up to a byte `q` that is neither blank nor a line break,
    and from it on only blanks up to such a byte `r` -/
def InlineSeam (b : Bytes) (p : Nat) : Prop :=
  isBoundary b p = true ∧
  (∃ q, q < p ∧ (∃ x, b[q]? = some x ∧ isStopByte x) ∧ ∀ i, q < i → i < p → ∃ x, b[i]? = some x ∧ isSkipByte x) ∧
  (∃ r, p ≤ r ∧ (∃ x, b[r]? = some x ∧ isStopByte x) ∧ ∀ i, p ≤ i → i < r → ∃ x, b[i]? = some x ∧ isSkipByte x)

/-- none of the four seam formatters finds anything to delete at an inline seam -/
theorem inline_hull (b : Bytes) (p : Nat) (h : InlineSeam b p) :
    formatBlock b p seamFormatters (p, p) = .ok (p, p) := by
  obtain ⟨hb, ⟨q, hq, hqs, hqb⟩, ⟨r, hr, hrs, hrb⟩⟩ := h
  obtain ⟨xr, hxr, sr⟩ := hrs
  have hrlt : r < b.length := lt_of_getElem?_some _ _ _ hxr
  have hple : p ≤ b.length := by omega
  -- the byte at `p` is not a line break
  have hnl : byteIs b p '\n' = false := by
    by_cases hpr : p = r
    · subst hpr
      obtain ⟨c, rfl, c1, c2, c3⟩ := sr
      simp [byteIs, hxr, c3]
    · obtain ⟨x, hx, sx⟩ := hrb p (Nat.le_refl _) (by omega)
      rcases sx with rfl | rfl | rfl <;> simp [byteIs, hx]
  have hprev : findPrevLB b p true = none := findPrevLB_pause_none b p q hq hple hqb (Or.inr hqs)
  have hnext : findNextLB b p true = none := findNextLB_pause_none b p r hr hrb (Or.inr ⟨xr, hxr, sr⟩)
  simp only [seamFormatters, formatBlock, fmtIndent, fmtEmpty, fmtPrev, fmtNext, hb, hnl, hprev, hnext,
    Bool.not_true, Bool.not_false, Bool.false_eq_true, or_true, ite_true, ite_false, Option.bind_none,
    Nat.min_self, Nat.max_self, if_false, if_true]

theorem hulls_inline (K : Bytes) : ∀ (ps : List Nat) (rs : List Rng'), HullsOf K ps rs → (∀ p ∈ ps, InlineSeam K p) →
    ∀ r ∈ rs, r.1 = r.2
  | [], [], _, _, r, hr => by cases hr
  | [], _ :: _, h, _, _, _ => absurd h (by simp [HullsOf])
  | _ :: _, [], h, _, _, _ => absurd h (by simp [HullsOf])
  | p :: ps, x :: rs, h, hin, r, hr => by
    simp only [HullsOf] at h
    obtain ⟨h1, h2⟩ := h
    rcases List.mem_cons.mp hr with rfl | hr
    · rw [inline_hull K p (hin p (by simp))] at h1
      injection h1 with h1
      rw [← h1]
    · exact hulls_inline K ps rs h2 (fun p' hp' => hin p' (by simp [hp'])) r hr

/-- a document all of whose seams are inline, nothing unwrapped: the output is the text after removal, byte for byte -
    no whitespace is touched -/
theorem clean_inline_exact (src ds de : List Char) (cfg : Cfg) (out : List Char) (hde : de ≠ [])
    (hnu : NoReadyUnwrap cfg (parseSource src ds de))
    (hin : ∀ p ∈ positions (buildRemoveMarker cfg (bytesOf src) (parseSource src ds de)) 0,
      InlineSeam (minusRanges (bytesOf src) (extentsOfSource src ds de cfg)) p)
    (h : clean src ds de cfg = .ok out) :
    bytesOf out = minusRanges (bytesOf src) (extentsOfSource src ds de cfg) := by
  unfold clean at h
  simp only [bind, Except.bind, pure, Except.pure] at h
  generalize hM : buildRemoveMarker cfg (bytesOf src) (parseSource src ds de) = M at h hin
  cases hrm : removeMarkers (bytesOf src) M with
  | error e => rw [hrm] at h; simp at h
  | ok removed =>
    rw [hrm] at h
    simp only at h
    cases hpos : getRemovedPos M with
    | error e => rw [hpos] at h; simp at h
    | ok pos =>
      rw [hpos] at h
      simp only at h
      cases hf : format removed pos with
      | error e => rw [hf] at h; simp at h
      | ok o =>
        rw [hf] at h
        simp only at h
        injection h with h
        subst h
        obtain ⟨hs, _⟩ := buildRemoveMarker_spec src ds de cfg hde
        rw [hM] at hs
        have hnp : ∀ m ∈ M, m.pair = none := by
          rw [← hM]
          exact mergeMarkers_nopair _ [] (collect_nopairs cfg (bytesOf src) _ hnu) (by simp)
        have hremoved := C02.removed_eq src ds de cfg hde removed (by rw [hM]; exact hrm)
        have hpos' := removedPosAux_eq M 0 0 (blen src) hs (Nat.le_refl _)
        unfold getRemovedPos at hpos
        rw [hpos'] at hpos
        injection hpos with hpos
        obtain ⟨s1, hs1⟩ := deleteAll_wellFormed src _ removed hrm
        have hplen : ∀ (ms : List Marker) (k : Nat), (positions ms k).length = ms.length := by
          intro ms; induction ms with
          | nil => intro k; rfl
          | cons m ms ih => intro k; simp [positions, ih]
        have hmapfst : pos.map (·.1) = positions M 0 := by
          rw [← hpos, List.map_fst_zip]
          simp [hplen]
        rw [← hremoved, hs1] at hin ⊢
        rw [hs1] at hf
        obtain ⟨_, s2, hs2⟩ := format_wsSub s1 pos o hf
        obtain ⟨ranges, hh, heq⟩ := format_explicit s1 pos o (by
          intro q hq
          rw [← hpos] at hq
          have := (List.of_mem_zip hq).2
          obtain ⟨m, hm, hmp⟩ := List.mem_map.mp this
          rw [← hmp]; exact hnp m hm) hf
        rw [hmapfst] at hh
        have hempty := hulls_inline _ _ _ hh hin
        rw [hs2, charsOf_bytesOf, ← hs2, heq]
        apply minusFrom_keep
        intro d _ _
        cases hd : inAny (mergeOverlapped ranges) d with
        | false => rfl
        | true =>
          exfalso
          have hd2 := C14.merged_subset _ d hd
          simp only [inAny, List.any_eq_true] at hd2
          obtain ⟨x, hx, hxd⟩ := hd2
          have := hempty x hx
          simp only [Rng.contains, Bool.and_eq_true, decide_eq_true_eq] at hxd
          omega

/-! Non-vacuity: `a <rm name='a'>x</rm> b`. -/
def inSrc : List Char := "a <rm name='a'>x</rm> b\n".toList
def inCfg : Cfg := ⟨"tl".toList, "rm".toList, 1577836800, 0, "+00:00".toList, ["a".toList]⟩
example : (clean inSrc "<".toList ">".toList inCfg).toOption = some "a  b\n".toList := by decide +kernel
example : positions (buildRemoveMarker inCfg (bytesOf inSrc) (parseSource inSrc "<".toList ">".toList)) 0 = [2] := by
  decide +kernel
example : InlineSeam (bytesOf "a  b\n".toList) 2 := by
  refine ⟨by decide, ⟨0, by omega, ⟨.lead 'a', by decide, 'a', rfl, by decide, by decide, by decide⟩, ?_⟩,
    ⟨3, by omega, ⟨.lead 'b', by decide, 'b', rfl, by decide, by decide, by decide⟩, ?_⟩⟩
  · intro i h1 h2
    have : i = 1 := by omega
    subst this
    exact ⟨.lead ' ', by decide, Or.inr (Or.inl rfl)⟩
  · intro i h1 h2
    have : i = 2 := by omega
    subst this
    exact ⟨.lead ' ', by decide, Or.inr (Or.inl rfl)⟩

end Chiritori.Props.C13
