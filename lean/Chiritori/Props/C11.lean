import Chiritori.Spec.Holds
namespace Chiritori.Props.C11
end Chiritori.Props.C11
