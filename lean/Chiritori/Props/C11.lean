import Chiritori.Props.C04
/-
  C11 — Unwrap-block removes the two tag lines and the two wrapper lines, nothing else.

  * `parts_lines`: when an unwrap-block is unwrapped, its opening part runs from the first character of the
    opening tag to the end of the line after the tag's line (the second line break at or after the end of the
    tag), and its closing part from the beginning of the line before the closing tag's line (just behind the
    second line break before the tag) to the last character of the closing tag.
  * `unwrappable_iff`: that happens exactly when at least three line breaks lie between the two tags, i.e.
    at least two lines stand between the tag lines; with fewer (or with both tags on one line) the element has
    no extent at all (`too_short_no_extent`).
  * Together with C02/C03 (`Props.C02.c02_c03`): the two parts disappear completely and nothing outside them
    (and outside other ready extents) disappears except whitespace, so every inner line survives; with C04: an
    element that cannot be unwrapped is left untouched, tags included, when nothing else is ready.
  The statement is about arbitrary sources; block documents (every tag alone on its line) are the special case
  in which the two parts are exactly four lines.
-/
namespace Chiritori.Props.C11
open Chiritori Chiritori.Spec

/-- the opening part ends at the second line break at or after the end of the opening tag; the closing part
    starts just behind the second line break before the closing tag -/
theorem parts_lines (b : Bytes) (st en : Token) (h t : Rng) (h0 : 0 < st.bstop) (hlen : en.bstart ≤ b.length)
    (hu : unwrapParts b st en = some (h, t)) :
    ∃ p1 q1,
      -- p1: first line break at or after the end of the opening tag; h.2: the next one
      st.bstop ≤ p1 ∧ b[p1]? = some NL ∧ (∀ i, st.bstop ≤ i → i < p1 → b[i]? ≠ some NL) ∧
      p1 < h.2 ∧ b[h.2]? = some NL ∧ (∀ i, p1 < i → i < h.2 → b[i]? ≠ some NL) ∧
      -- q1: last line break before the closing tag; t.1 - 1: the one before it
      q1 < en.bstart ∧ b[q1]? = some NL ∧ (∀ i, q1 < i → i < en.bstart → b[i]? ≠ some NL) ∧
      t.1 ≤ q1 ∧ b[t.1 - 1]? = some NL ∧ (∀ i, t.1 ≤ i → i < q1 → b[i]? ≠ some NL) ∧
      h.1 = st.bstart ∧ t.2 = en.bstop ∧ h.2 < t.1 := by
  have hb := buildUnwrap_eq b st en h0 hlen
  rw [hu] at hb
  simp only at hb
  unfold buildUnwrap at hb
  cases hp1 : findNextLB b st.bstop false with
  | none => rw [hp1] at hb; simp at hb
  | some p1 =>
    rw [hp1] at hb
    simp only [Option.bind_some] at hb
    cases hp2 : findNextLB b (p1 + 1) false with
    | none => rw [hp2] at hb; simp at hb
    | some p2 =>
      rw [hp2] at hb
      cases hq1 : findPrevLB b en.bstart false with
      | none => rw [hq1] at hb; simp at hb
      | some q1 =>
        rw [hq1] at hb
        simp only [Option.bind_some] at hb
        cases hq2 : findPrevLB b q1 false with
        | none => rw [hq2] at hb; simp at hb
        | some q2 =>
          rw [hq2] at hb
          simp only at hb
          obtain ⟨_, a2, _, a4, a5, _⟩ := findNextLB_some b st.bstop p1 false hp1
          obtain ⟨_, c2, _, c4, c5, _⟩ := findNextLB_some b (p1 + 1) p2 false hp2
          obtain ⟨_, d2, _, d4, d5, _⟩ := findPrevLB_some b en.bstart q1 false hq1
          obtain ⟨e1, e2, _, e4, e5, _⟩ := findPrevLB_some b q1 q2 false hq2
          split at hb
          · rename_i hv
            injection hb with hb1 hb2
            injection hb2 with hb2
            subst hb1; subst hb2
            refine ⟨p1, q1, a2, a4, a5, by simp only; omega, c4, ?_, d2, d4, d5, by simp only; omega,
              by simpa using e4, ?_, rfl, rfl, by simp only; omega⟩
            · intro i hi1 hi2; exact c5 i (by omega) hi2
            · intro i hi1 hi2; exact e5 i (by simp only at hi1; omega) hi2
          · injection hb with hb1 hb2
            simp at hb2

/-- an unwrap-block is unwrapped exactly when three line breaks lie between the end of its opening tag and the
    start of its closing tag (at least two lines between the two tag lines) -/
theorem unwrappable_iff (b : Bytes) (st en : Token) (h0 : 0 < st.bstop) (hlen : en.bstart ≤ b.length) :
    (unwrapParts b st en).isSome = true ↔
      ∃ x y z, st.bstop ≤ x ∧ x < y ∧ y < z ∧ z < en.bstart ∧
        b[x]? = some NL ∧ b[y]? = some NL ∧ b[z]? = some NL := by
  constructor
  · intro hs
    cases hu : unwrapParts b st en with
    | none => rw [hu] at hs; simp at hs
    | some ht =>
      obtain ⟨h, t⟩ := ht
      obtain ⟨p1, q1, a1, a2, _, a4, a5, _, c1, c2, _, c4, c5, _, _, _, hlt⟩ := parts_lines b st en h t h0 hlen hu
      exact ⟨p1, h.2, q1, a1, a4, by omega, c1, a2, a5, c2⟩
  · rintro ⟨x, y, z, hx, hxy, hyz, hz, nx, ny, nz⟩
    have hb := buildUnwrap_eq b st en h0 hlen
    -- all four finder calls succeed and the validity test passes
    cases hp1 : findNextLB b st.bstop false with
    | none => exact absurd nx (findNextLB_none_false b st.bstop h0 hp1 x hx)
    | some p1 =>
      obtain ⟨_, a2, _, a4, a5, _⟩ := findNextLB_some b st.bstop p1 false hp1
      have hp1x : p1 ≤ x := by
        by_cases h : p1 ≤ x
        · exact h
        · exact absurd nx (a5 x hx (by omega))
      cases hp2 : findNextLB b (p1 + 1) false with
      | none => exact absurd ny (findNextLB_none_false b (p1 + 1) (by omega) hp2 y (by omega))
      | some p2 =>
        obtain ⟨_, c2, _, c4, c5, _⟩ := findNextLB_some b (p1 + 1) p2 false hp2
        have hp2y : p2 ≤ y := by
          by_cases h : p2 ≤ y
          · exact h
          · exact absurd ny (c5 y (by omega) (by omega))
        cases hq1 : findPrevLB b en.bstart false with
        | none => exact absurd nz (findPrevLB_none_false b en.bstart hlen hq1 z (by omega) hz)
        | some q1 =>
          obtain ⟨_, d2, _, d4, d5, _⟩ := findPrevLB_some b en.bstart q1 false hq1
          have hq1z : z ≤ q1 := by
            by_cases h : z ≤ q1
            · exact h
            · exact absurd nz (d5 z (by omega) hz)
          cases hq2 : findPrevLB b q1 false with
          | none => exact absurd ny (findPrevLB_none_false b q1 (by omega) hq2 y (by omega) (by omega))
          | some q2 =>
            obtain ⟨_, e2, _, e4, e5, _⟩ := findPrevLB_some b q1 q2 false hq2
            have hq2y : y ≤ q2 := by
              by_cases h : y ≤ q2
              · exact h
              · exact absurd ny (e5 y (by omega) (by omega))
            unfold buildUnwrap at hb
            rw [hp1] at hb
            simp only [Option.bind_some] at hb
            rw [hp2, hq1] at hb
            simp only [Option.bind_some] at hb
            rw [hq2] at hb
            simp only at hb
            rw [if_pos (by omega : q2 ≥ p2)] at hb
            cases hu : unwrapParts b st en with
            | none => rw [hu] at hb; simp at hb
            | some _ => rfl

/-- fewer than three line breaks between the tags: the element has no removable extent -/
theorem too_short_no_extent (b : Bytes) (el : Element) (st en : Token) (h0 : 0 < st.bstop) (hlen : en.bstart ≤ b.length)
    (hu : hasAttr el "unwrap-block" = true)
    (hshort : ¬ ∃ x y z, st.bstop ≤ x ∧ x < y ∧ y < z ∧ z < en.bstart ∧
        b[x]? = some NL ∧ b[y]? = some NL ∧ b[z]? = some NL) : extentOf b el st en = [] := by
  unfold extentOf
  rw [if_pos hu]
  cases hp : unwrapParts b st en with
  | none => rfl
  | some ht =>
    exfalso
    apply hshort
    exact (unwrappable_iff b st en h0 hlen).mp (by rw [hp]; rfl)

/-- ... and the extent of an unwrappable one is exactly its two parts -/
theorem extent_two_parts (b : Bytes) (el : Element) (st en : Token) (h t : Rng)
    (hu : hasAttr el "unwrap-block" = true) (hp : unwrapParts b st en = some (h, t)) :
    extentOf b el st en = [h, t] := by
  unfold extentOf
  rw [if_pos hu, hp]

/-! Kernel-evaluated instances: k = 2 is unwrapped (D6), k = 1 is not. -/
def cfg0 : Cfg := ⟨"tl".toList, "rm".toList, 1577836800, 0, "+00:00".toList, []⟩
def cleanOr (src : String) : List Char :=
  match clean src.toList "<".toList ">".toList cfg0 with
  | .ok o => o
  | .error _ => "PANIC".toList
example : cleanOr "a\n<tl to='2000-01-01 00:00:00' unwrap-block>\n{\n}\n</tl>\nb\n" = "a\n\nb\n".toList := by decide +kernel
example : cleanOr "a\n<tl to='2000-01-01 00:00:00' unwrap-block>\n{\n</tl>\nb\n"
    = "a\n<tl to='2000-01-01 00:00:00' unwrap-block>\n{\n</tl>\nb\n".toList := by decide +kernel
example : cleanOr "a\n<tl to='2000-01-01 00:00:00' unwrap-block>\nif (x) {\n  keep\n}\n</tl>\nb\n" = "a\nkeep\nb\n".toList := by
  decide +kernel

end Chiritori.Props.C11
