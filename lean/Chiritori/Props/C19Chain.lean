import Chiritori.Props.C19Idem
/-
  C19, second clause, along chains of any length: cleaning step by step with configurations that never go back
  (`Chain`: each is `CfgLe` the next) gives, up to whitespace, what one cleaning with the last configuration
  gives - for default-strategy removals in well-delimited sources (`compose_chain`).

  The invariant carried through the steps: the current document is a well-delimited text whose forest is
  indistinguishable (after any pruning, up to whitespace: `RelParts`) from the original forest pruned by the
  previous configuration, and whose elements are elements of the original forest.
-/
namespace Chiritori.Props.C19
open Chiritori Chiritori.Spec

theorem CfgLe.refl (c : Cfg) : CfgLe c c :=
  ⟨rfl, rfl, rfl, Or.inr ⟨rfl, Nat.le_refl _⟩, fun _ h => h⟩

theorem CfgLe.trans {a b c : Cfg} (h1 : CfgLe a b) (h2 : CfgLe b c) : CfgLe a c := by
  refine ⟨h1.tl.trans h2.tl, h1.rm.trans h2.rm, h1.off.trans h2.off, ?_, fun t ht => h2.targets t (h1.targets t ht)⟩
  rcases h1.time with t1 | ⟨t1, n1⟩
  · rcases h2.time with t2 | ⟨t2, _⟩
    · exact Or.inl (by omega)
    · exact Or.inl (by omega)
  · rcases h2.time with t2 | ⟨t2, n2⟩
    · exact Or.inl (by omega)
    · exact Or.inr ⟨by omega, by omega⟩

/-- configurations that never go back -/
def Chain : List Cfg → Prop
  | [] => True
  | [_] => True
  | c1 :: c2 :: rest => CfgLe c1 c2 ∧ Chain (c2 :: rest)

theorem chain_tail : ∀ (c : Cfg) (rest : List Cfg), Chain (c :: rest) → Chain rest
  | _, [], _ => trivial
  | _, _ :: _, h => h.2

theorem chain_head_le : ∀ (rest : List Cfg) (c : Cfg), Chain (c :: rest) → ∀ c' ∈ rest, CfgLe c c'
  | [], _, _, c', hc' => by simp at hc'
  | c2 :: rest, c, h, c', hc' => by
    rcases List.mem_cons.mp hc' with rfl | hm
    · exact h.1
    · exact h.1.trans (chain_head_le rest c2 h.2 c' hm)

/-- cleaning step by step -/
def cleanChain (ds de : List Char) : List Cfg → List Char → Except Panic (List Char)
  | [], src => .ok src
  | c :: cs, src =>
    match clean src ds de c with
    | .ok o => cleanChain ds de cs o
    | .error e => .error e

/-! ### pruning twice is pruning by the union -/

mutual
theorem prune_union (P Q : Element → Bool) : ∀ (a : List Part),
    pruneParts Q (pruneParts P a) = pruneParts (fun e => P e || Q e) a
  | [] => rfl
  | p :: ps => by
    simp only [pruneParts, pruneParts_append, prunePart_union P Q p, prune_union P Q ps]
theorem prunePart_union (P Q : Element → Bool) : ∀ (p : Part),
    pruneParts Q (prunePart P p) = prunePart (fun e => P e || Q e) p
  | .text t => by simp [prunePart, pruneParts]
  | .element el st en ch => by
    simp only [prunePart]
    by_cases h1 : P el = true
    · simp [h1, pruneParts]
    · have h1' : P el = false := by simpa using h1
      simp only [h1', Bool.false_eq_true, ite_false, pruneParts, prunePart, List.append_nil, Bool.false_or,
        prune_union P Q ch]
end

mutual
theorem prune_false : ∀ (a : List Part), pruneParts (fun _ => false) a = a
  | [] => rfl
  | p :: ps => by simp only [pruneParts, prunePart_false p, prune_false ps, List.singleton_append]
theorem prunePart_false : ∀ (p : Part), prunePart (fun _ => false) p = [p]
  | .text t => rfl
  | .element el st en ch => by simp [prunePart, prune_false ch]
end

theorem RelParts.prune {a b : List Part} (h : RelParts a b) (P : Element → Bool) :
    RelParts (pruneParts P a) (pruneParts P b) := by
  intro Q
  rw [prune_union, prune_union]
  exact h _

theorem RelParts.trans {a b c : List Part} (h1 : RelParts a b) (h2 : RelParts b c) : RelParts a c :=
  fun P => (h1 P).trans (h2 P)

/-! ### the invariant through the steps -/

theorem chain_aux (d0 : Char) (dr : List Char) (e0 : Char) (er : List Char)
    (hd0 : wsChar d0 = false) (hel : ∀ w c, (e0 :: er) = w ++ [c] → wsChar c = false) (G0 : List Part) (cn : Cfg)
    (hnu : NoReadyUnwrap cn G0) :
    ∀ (cfgs : List Cfg) (ps : List Piece) (Q : Element → Bool) (outN : List Char),
    (∀ p ∈ ps, p.ok d0 e0) →
    RelParts (parseSource (renderAll (d0 :: dr) (e0 :: er) ps) (d0 :: dr) (e0 :: er)) (pruneParts Q G0) →
    (∀ e ∈ elementsOf (parseSource (renderAll (d0 :: dr) (e0 :: er) ps) (d0 :: dr) (e0 :: er)),
      ∃ e' ∈ elementsOf G0, e'.1 = e.1) →
    (∀ c ∈ cfgs ++ [cn], ∀ e, Q e = true → conditionHolds c e = true) →
    Chain (cfgs ++ [cn]) →
    cleanChain (d0 :: dr) (e0 :: er) (cfgs ++ [cn]) (renderAll (d0 :: dr) (e0 :: er) ps) = .ok outN →
    nwC outN = nwflat (pruneParts (conditionHolds cn) G0)
  | [], ps, Q, outN, hok, hrel, hsub, hQ, _, hN => by
    simp only [List.nil_append, cleanChain] at hN
    cases hc : clean (renderAll (d0 :: dr) (e0 :: er) ps) (d0 :: dr) (e0 :: er) cn with
    | error e => rw [hc] at hN; simp at hN
    | ok o =>
      rw [hc] at hN
      simp only at hN
      injection hN with hN
      subst hN
      have hnu' : NoReadyUnwrap cn (parseSource (renderAll (d0 :: dr) (e0 :: er) ps) (d0 :: dr) (e0 :: er)) := by
        intro e he hcnd
        obtain ⟨e', he', hee⟩ := hsub e he
        have := hnu e' he'
        rw [hee] at this
        exact this hcnd
      rw [clean_nw d0 dr e0 er hd0 hel ps hok cn o hnu' hc, hrel (conditionHolds cn),
        prune_prune Q _ (fun e he => hQ cn (by simp) e he)]
  | c :: rest, ps, Q, outN, hok, hrel, hsub, hQ, hch, hN => by
    have hle : CfgLe c cn := chain_head_le (rest ++ [cn]) c hch cn (by simp)
    have hmono : ∀ e, conditionHolds c e = true → conditionHolds cn e = true := ready_monotone c cn hle
    simp only [List.cons_append, cleanChain] at hN
    cases hc : clean (renderAll (d0 :: dr) (e0 :: er) ps) (d0 :: dr) (e0 :: er) c with
    | error e => rw [hc] at hN; simp at hN
    | ok o =>
      rw [hc] at hN
      simp only at hN
      have hnu' : NoReadyUnwrap c (parseSource (renderAll (d0 :: dr) (e0 :: er) ps) (d0 :: dr) (e0 :: er)) := by
        intro e he hcnd
        obtain ⟨e', he', hee⟩ := hsub e he
        have := hnu e' he'
        rw [hee] at this
        exact this (hmono _ hcnd)
      obtain ⟨ps1, q1, hout1, q4⟩ := clean_shape d0 dr e0 er hd0 hel ps hok c o hnu' hc
      subst hout1
      have hels := elements_after d0 dr e0 er ps1 q1 (conditionHolds c) _ q4
      have htr : TokRel (tokenize (renderAll (d0 :: dr) (e0 :: er) ps1) (d0 :: dr) (e0 :: er))
          (flattenParts (pruneParts (conditionHolds c)
            (parseSource (renderAll (d0 :: dr) (e0 :: er) ps) (d0 :: dr) (e0 :: er)))) := by
        have := tokRel_of_pRel (d0 :: dr) (e0 :: er) ps1 _ [] [] _ q4 (by simp) rfl (tokens_tnorm d0 dr e0 er ps1 q1)
        simpa using this
      have hrel1 := parse_rel (d0 :: dr) (e0 :: er) _ _ htr
      have hrel1' : RelParts (parseSource (renderAll (d0 :: dr) (e0 :: er) ps1) (d0 :: dr) (e0 :: er))
          (pruneParts (conditionHolds c) (parseSource (renderAll (d0 :: dr) (e0 :: er) ps) (d0 :: dr) (e0 :: er))) := by
        unfold parseSource at hrel1 ⊢
        rw [parse_pruned] at hrel1
        exact hrel1
      have hrel2 : RelParts (parseSource (renderAll (d0 :: dr) (e0 :: er) ps1) (d0 :: dr) (e0 :: er))
          (pruneParts (conditionHolds c) G0) := by
        have := RelParts.prune hrel (conditionHolds c)
        rw [prune_prune Q _ (fun e he => hQ c (by simp) e he)] at this
        exact RelParts.trans hrel1' this
      apply chain_aux d0 dr e0 er hd0 hel G0 cn hnu rest ps1 (conditionHolds c) outN q1 hrel2
      · intro e he
        have hm : e.1 ∈ (elementsOf (parseSource (renderAll (d0 :: dr) (e0 :: er) ps1) (d0 :: dr) (e0 :: er))).map (·.1) :=
          List.mem_map.mpr ⟨e, he, rfl⟩
        rw [hels] at hm
        obtain ⟨e1, he1, hee1⟩ := List.mem_map.mp hm
        obtain ⟨e', he', hee'⟩ := hsub e1 (elementsOf_prune_subset _ _ e1 he1)
        exact ⟨e', he', by rw [hee', hee1]⟩
      · intro c' hc' e he
        exact ready_monotone c c' (chain_head_le (rest ++ [cn]) c hch c' hc') e he
      · exact chain_tail c (rest ++ [cn]) hch
      · exact hN

/-- C19 (second clause) along a chain of configurations, for default-strategy removals in well-delimited sources -/
theorem compose_chain (d0 : Char) (dr : List Char) (e0 : Char) (er : List Char)
    (hd0 : wsChar d0 = false) (hel : ∀ w c, (e0 :: er) = w ++ [c] → wsChar c = false)
    (ps : List Piece) (hok : ∀ p ∈ ps, p.ok d0 e0) (cfgs : List Cfg) (cn : Cfg) (hch : Chain (cfgs ++ [cn]))
    (outN out1 : List Char)
    (hnu : NoReadyUnwrap cn (parseSource (renderAll (d0 :: dr) (e0 :: er) ps) (d0 :: dr) (e0 :: er)))
    (hN : cleanChain (d0 :: dr) (e0 :: er) (cfgs ++ [cn]) (renderAll (d0 :: dr) (e0 :: er) ps) = .ok outN)
    (h1 : clean (renderAll (d0 :: dr) (e0 :: er) ps) (d0 :: dr) (e0 :: er) cn = .ok out1) :
    nwC outN = nwC out1 := by
  rw [clean_nw d0 dr e0 er hd0 hel ps hok cn out1 hnu h1]
  apply chain_aux d0 dr e0 er hd0 hel _ cn hnu cfgs ps (fun _ => false) outN hok
  · rw [prune_false]; exact RelParts.refl _
  · intro e he; exact ⟨e, he, rfl⟩
  · intro c _ e he; simp at he
  · exact hch
  · exact hN

/-! Non-vacuity: a chain of three configurations on the example document of `compose_default`. -/
def exC0 : Cfg := ⟨"tl".toList, "rm".toList, 946684800, 0, "+00:00".toList, []⟩

example : Chain ([exC0, exC1] ++ [exC2]) ∧
    outIs (cleanChain "<".toList ">".toList ([exC0, exC1] ++ [exC2]) (renderAll "<".toList ">".toList exPs2))
      "a\nm\n\nz\n" = true := by
  refine ⟨⟨⟨rfl, rfl, rfl, Or.inl (by decide), by intro t ht; simp [exC0] at ht⟩,
    ⟨rfl, rfl, rfl, Or.inl (by decide), by intro t ht; simp [exC1] at ht⟩, trivial⟩, by decide +kernel⟩

end Chiritori.Props.C19
