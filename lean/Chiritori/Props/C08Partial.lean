import Chiritori.Lemmas.ScanFinal
/-
  C08, the regions where the property holds.

  * `c08_wellDelimited_partial`: for any non-empty delimiters, on every source that is a sequence of
    *well-delimited pieces* - text pieces free of the first character of the start delimiter, and tags
    `ds ++ b0 :: rest ++ de` whose body after its first character is free of the first character of the end
    delimiter - the tokenizer's kinds and values are exactly those of the textbook leftmost-shortest scan.
    This is the shape of every document the AST generator renders (C18, C19).
  * `c08_single_char`: for single-character delimiters the property holds for *every* source.
  Missing from full strength (known finding D4): multi-character delimiters on sources in which a failed partial
  match overlaps a real occurrence of a delimiter.
-/
namespace Chiritori.Props.C08
open Chiritori Chiritori.Spec

theorem flushKind_text (ds de : List Char) : flushKind ds de .text = .text := by
  unfold flushKind getState
  cases h : checkDelimiterStart ' ' ds <;> simp

theorem flushKind_dend_nil (ds de : List Char) : flushKind ds de (.dend []) = .element := by
  simp [flushKind, getState]

/-- kinds and values of the token list, given what the automaton did on the pieces and what the flush and
    merge make of the trailing stretch -/
theorem scan_core (d0 : Char) (dr : List Char) (e0 : Char) (er : List Char) (ps : List Piece) (t : List Char)
    (hok : ∀ p ∈ ps, p.ok d0 e0) (ht : TailText (d0 :: dr) (e0 :: er) t d0)
    (hmach : ∀ (m : MSt) (outs : SOut), m.good →
      NoAdjS (mfinish [] outs m) → NoAdjS (mfinish t outs m) →
      (m = .T [] → renderAll (d0 :: dr) (e0 :: er) ps = []) →
      (sFlush (d0 :: dr) (e0 :: er) (renderAll (d0 :: dr) (e0 :: er) ps ++ t)
        (srun (d0 :: dr) (e0 :: er) ⟨outs, m.repr.1, m.repr.2⟩ t)).foldl sMergeStep []
        = mfinish t outs m ∨ (renderAll (d0 :: dr) (e0 :: er) ps ++ t = [])) :
    c08Holds (renderAll (d0 :: dr) (e0 :: er) ps ++ t) (d0 :: dr) (e0 :: er)
      (tokenize (renderAll (d0 :: dr) (e0 :: er) ps ++ t) (d0 :: dr) (e0 :: er)) = true := by
  generalize hsrc : renderAll (d0 :: dr) (e0 :: er) ps ++ t = src at hmach ⊢
  unfold c08Holds
  simp only [beq_iff_eq]
  have hkv : (tokenize src (d0 :: dr) (e0 :: er)).map (fun t => (t.kind, t.value))
      = (tokenize src (d0 :: dr) (e0 :: er)).map kv := rfl
  rw [hkv, tokenize_proj src (d0 :: dr) (e0 :: er) (by simp)]
  obtain ⟨m', outs', h1, h2, h3, h4⟩ := srun_pieces d0 dr e0 er ps (.T []) [] trivial hok
  have hall : List.foldl (sStep (d0 :: dr) (e0 :: er)) sInit src
      = srun (d0 :: dr) (e0 :: er) ⟨outs', m'.repr.1, m'.repr.2⟩ t := by
    rw [← hsrc]
    show srun (d0 :: dr) (e0 :: er) sInit _ = _
    rw [srun_append]
    have : sInit = ⟨[], (MSt.T []).repr.1, (MSt.T []).repr.2⟩ := rfl
    rw [this, h1]
  rw [hall]
  have hL0 : NoAdjS (mfinish [] outs' m') := by rw [h3 []]; exact tnorm_noAdj _ _ _ ps []
  have hLt : NoAdjS (mfinish t outs' m') := by rw [h3 t]; exact tnorm_noAdj _ _ _ ps []
  have htb : textbook src (d0 :: dr) (e0 :: er) = tnorm (d0 :: dr) (e0 :: er) t ps [] := by
    unfold textbook
    have := textbook_pieces d0 dr e0 er t ht ps [] src.length (by simp) hok (by simp [hsrc])
    simp only [List.nil_append, hsrc] at this
    exact this
  rcases hmach m' outs' h2 hL0 hLt (fun hm => (h4 hm).2) with hm | hm
  · rw [hm, h3 t, htb]
    simp [F]
  · -- empty source
    have hps : renderAll (d0 :: dr) (e0 :: er) ps = [] ∧ t = [] := by
      rw [← hsrc] at hm; simpa using hm
    rw [hps.2] at hall ⊢
    simp only [srun, List.foldl_nil]
    rw [htb, hps.2]
    have hsrc0 : src = [] := hm
    simp only [sFlush, hsrc0, ite_true]
    have hrun := h1
    rw [hps.1] at hrun
    simp only [srun, List.foldl_nil, MSt.repr] at hrun
    injection hrun with e1 e2 e3
    rw [← e1]
    have := h3 []
    rw [← e1] at this
    cases m' with
    | T pend =>
      simp only [MSt.repr] at e3
      rw [← e3] at this
      simp only [mfinish, List.append_nil, ne_eq, not_true_eq_false, ite_false, List.nil_append, F] at this
      rw [← this]; rfl
    | G tag => simp [MSt.repr] at e2

theorem c08_wellDelimited_partial (d0 : Char) (dr : List Char) (e0 : Char) (er : List Char) (ps : List Piece)
    (hok : ∀ p ∈ ps, p.ok d0 e0) :
    c08Holds (renderAll (d0 :: dr) (e0 :: er) ps) (d0 :: dr) (e0 :: er)
      (tokenize (renderAll (d0 :: dr) (e0 :: er) ps) (d0 :: dr) (e0 :: er)) = true := by
  have := scan_core d0 dr e0 er ps [] hok (tailText_nil d0 dr (e0 :: er)) (by
    intro m outs hg hL0 _ hT
    simp only [List.append_nil, srun, List.foldl_nil]
    by_cases hs : renderAll (d0 :: dr) (e0 :: er) ps = []
    · exact Or.inr hs
    · left
      -- the flush, then the merge pass is the identity
      have hflush : sFlush (d0 :: dr) (e0 :: er) (renderAll (d0 :: dr) (e0 :: er) ps) ⟨outs, m.repr.1, m.repr.2⟩
          = mfinish [] outs m ∨ (∃ pend, m = .T pend ∧ pend = []) := by
        unfold sFlush
        simp only [hs, ite_false]
        cases m with
        | T pend =>
          by_cases hp : pend = []
          · exact Or.inr ⟨pend, rfl, hp⟩
          · left; simp [MSt.repr, mfinish, hp, flushKind_text]
        | G tag => left; simp [MSt.repr, mfinish, flushKind_dend_nil]
      rcases hflush with hf | ⟨pend, hm, hp⟩
      · rw [hf, sMerge_id _ hL0 [] (by simpa using hL0)]
        simp
      · subst hm; subst hp
        exact absurd (hT rfl) hs)
  simpa using this


/-! ### single-character delimiters: every source -/

/-- an unterminated start of a tag: the start delimiter, then nothing, or a first body character and a body
    without the end delimiter -/
def Unterminated (d e : Char) (t : List Char) : Prop :=
  ∃ stuff, t = d :: stuff ∧ (stuff = [] ∨ ∃ b0 body, stuff = b0 :: body ∧ ∀ c ∈ body, c ≠ e)

theorem tailText_unterminated (d e : Char) (t : List Char) (h : Unterminated d e t) : TailText [d] [e] t d := by
  obtain ⟨stuff, rfl, hst⟩ := h
  intro acc fuel hacc
  have hne : acc ++ d :: stuff ≠ [] := by simp
  rw [if_pos hne]
  cases fuel with
  | zero =>
    simp only [textbookAux, List.nil_append]
    rw [if_neg (by simp)]
  | succ f =>
    have hfs : findSub [d] (acc ++ ([d] ++ stuff)) = some acc.length := findSub_skip d [] acc stuff hacc
    have e1 : acc ++ d :: stuff = acc ++ ([d] ++ stuff) := by simp
    rw [e1]
    simp only [textbookAux, hfs]
    have hdrop : (acc ++ ([d] ++ stuff)).drop (acc.length + [d].length) = stuff := by
      rw [← List.append_assoc, List.drop_append_of_le_length (by simp)]
      simp
    rw [hdrop]
    rcases hst with hs | ⟨b0, body, hs, hb⟩
    · subst hs; simp
    · subst hs
      simp only
      rw [findSub_none e [] body hb]
      simp

theorem flushKind_dstart_nil (ds de : List Char) : flushKind ds de (.dstart []) = .text := by
  simp [flushKind, getState]

theorem flushKind_inDelim (ds : List Char) (e : Char) : flushKind ds [e] .inDelim = .text := by
  have hg : (getState ' ' ds [e] .inDelim).1 = none := by
    simp only [getState]
    split <;> rfl
  simp [flushKind, hg]

/-- what has been emitted once the character behind the current situation has been read -/
def emitOf (outs : SOut) : MSt → SOut
  | .T acc => if acc ≠ [] then outs ++ [(TKind.text, acc)] else outs
  | .G tag => outs ++ [(TKind.element, tag)]

/-- the automaton on an unterminated tail -/
theorem srun_unterminated (d e : Char) (t : List Char) (h : Unterminated d e t) (m : MSt) (outs : SOut) (hg : m.good) :
    ∃ st, srun [d] [e] ⟨outs, m.repr.1, m.repr.2⟩ t =
        ⟨emitOf outs m, st, t⟩ ∧ flushKind [d] [e] st = .text := by
  obtain ⟨stuff, rfl, hst⟩ := h
  -- after the start delimiter character
  have hfirst : ∃ outs1, sStep [d] [e] ⟨outs, m.repr.1, m.repr.2⟩ d = ⟨outs1, .dstart [], [d]⟩ ∧
      outs1 = emitOf outs m := by
    cases m with
    | T acc => exact ⟨emitOf outs (.T acc), by simp only [MSt.repr]; rw [sStep_text_d0]; rfl, rfl⟩
    | G tag =>
      refine ⟨emitOf outs (.G tag), ?_, rfl⟩
      simp only [MSt.repr]
      rw [sStep_dend_nil _ _ _ _ _ hg]
      simp [checkDelimiterStart, emitOf]
  obtain ⟨outs1, hstep, hout⟩ := hfirst
  rw [srun_cons, hstep, ← hout]
  rcases hst with hs | ⟨b0, body, hs, hb⟩
  · subst hs
    exact ⟨.dstart [], rfl, flushKind_dstart_nil _ _⟩
  · subst hs
    refine ⟨.inDelim, ?_, flushKind_inDelim _ _⟩
    rw [srun_cons]
    have : sStep [d] [e] ⟨outs1, .dstart [], [d]⟩ b0 = ⟨outs1, .inDelim, [d] ++ [b0]⟩ := by simp [sStep, getState]
    rw [this, srun_inDelim [d] e [] outs1 _ body hb]
    simp

theorem sMerge_last_text (l : SOut) (a t : List Char) (h : NoAdjS (l ++ [(TKind.text, a)])) :
    (l ++ [(TKind.text, a), (TKind.text, t)]).foldl sMergeStep [] = l ++ [(TKind.text, a ++ t)] := by
  have e : l ++ [(TKind.text, a), (TKind.text, t)] = (l ++ [(TKind.text, a)]) ++ [(TKind.text, t)] := by simp
  rw [e, List.foldl_append, sMerge_id _ h [] (by simpa using h)]
  simp [sMergeStep]


/-- split at the first occurrence of `p` -/
def splitAtChar (p : Char) : List Char → List Char × List Char
  | [] => ([], [])
  | c :: cs => if c = p then ([], c :: cs) else ((c :: (splitAtChar p cs).1), (splitAtChar p cs).2)

theorem splitAtChar_spec (p : Char) (s : List Char) :
    (splitAtChar p s).1 ++ (splitAtChar p s).2 = s ∧ (∀ c ∈ (splitAtChar p s).1, c ≠ p) ∧
    ((splitAtChar p s).2 = [] ∨ ∃ r, (splitAtChar p s).2 = p :: r) ∧ (splitAtChar p s).2.length ≤ s.length := by
  induction s with
  | nil => simp [splitAtChar]
  | cons c cs ih =>
    obtain ⟨h1, h2, h3, h4⟩ := ih
    simp only [splitAtChar]
    by_cases hc : c = p
    · subst hc; simp
    · simp only [hc, ite_false, List.cons_append, h1, List.mem_cons, forall_eq_or_imp, List.length_cons, true_and]
      exact ⟨⟨hc, h2⟩, h3, by omega⟩

/-- decomposition of any source into well-delimited pieces and a trailing stretch -/
def decomp (d e : Char) : Nat → List Char → List Piece × List Char
  | 0, s => ([], s)
  | f + 1, s =>
    match (splitAtChar d s).2 with
    | [] => ([.text (splitAtChar d s).1], [])
    | [x] => ([.text (splitAtChar d s).1], [x])
    | x :: b0 :: after =>
      match (splitAtChar e after).2 with
      | [] => ([.text (splitAtChar d s).1], x :: b0 :: after)
      | _ :: more => (.text (splitAtChar d s).1 :: .tag b0 (splitAtChar e after).1 :: (decomp d e f more).1, (decomp d e f more).2)

theorem decomp_spec (d e : Char) (fuel : Nat) : ∀ (s : List Char), s.length < fuel →
    renderAll [d] [e] (decomp d e fuel s).1 ++ (decomp d e fuel s).2 = s ∧
    (∀ p ∈ (decomp d e fuel s).1, p.ok d e) ∧
    ((decomp d e fuel s).2 = [] ∨ Unterminated d e (decomp d e fuel s).2) := by
  induction fuel with
  | zero => intro s h; omega
  | succ f ih =>
    intro s hlen
    obtain ⟨h1, h2, h3, h4⟩ := splitAtChar_spec d s
    simp only [decomp]
    cases hrest : (splitAtChar d s).2 with
    | nil =>
      rw [hrest] at h1
      simp only [renderAll, Piece.render, List.append_nil] at h1 ⊢
      exact ⟨h1, by intro p hp; simp at hp; subst hp; exact h2, by simp⟩
    | cons x rest1 =>
      have hx : x = d := by
        rcases h3 with h3 | ⟨r, h3⟩
        · rw [hrest] at h3; simp at h3
        · rw [hrest] at h3; injection h3
      subst hx
      cases rest1 with
      | nil =>
        rw [hrest] at h1
        simp only [renderAll, Piece.render, List.append_nil]
        exact ⟨h1, by intro p hp; simp at hp; subst hp; exact h2, Or.inr ⟨[], rfl, Or.inl rfl⟩⟩
      | cons b0 after =>
        obtain ⟨g1, g2, g3, g4⟩ := splitAtChar_spec e after
        simp only
        cases hafter : (splitAtChar e after).2 with
        | nil =>
          rw [hrest] at h1
          simp only [renderAll, Piece.render, List.append_nil]
          refine ⟨h1, by intro p hp; simp at hp; subst hp; exact h2, Or.inr ⟨b0 :: after, rfl, Or.inr ⟨b0, after, rfl, ?_⟩⟩⟩
          rw [hafter, List.append_nil] at g1
          rw [← g1]; exact g2
        | cons y more =>
          have hy : y = e := by
            rcases g3 with g3 | ⟨r, g3⟩
            · rw [hafter] at g3; simp at g3
            · rw [hafter] at g3; injection g3
          subst hy
          have hmore : more.length < f := by
            rw [hafter] at g4
            rw [hrest] at h4
            simp at g4 h4 hlen
            omega
          obtain ⟨i1, i2, i3⟩ := ih more hmore
          simp only
          refine ⟨?_, ?_, i3⟩
          · have e1 : s = (splitAtChar x s).1 ++ (x :: b0 :: after) := by rw [← hrest]; exact h1.symm
            have e2 : after = (splitAtChar y after).1 ++ (y :: more) := by rw [← hafter]; exact g1.symm
            conv => rhs; rw [e1, e2, ← i1]
            simp [renderAll, Piece.render]
          · intro p hp
            simp only [List.mem_cons] at hp
            rcases hp with hp | hp | hp
            · subst hp; exact h2
            · subst hp; exact g2
            · exact i2 p hp

/-- C08 for single-character delimiters: every source -/
theorem c08_single_char (d e : Char) (src : List Char) :
    c08Holds src [d] [e] (tokenize src [d] [e]) = true := by
  obtain ⟨h1, h2, h3⟩ := decomp_spec d e (src.length + 1) src (by omega)
  generalize (decomp d e (src.length + 1) src).1 = ps at h1 h2
  generalize (decomp d e (src.length + 1) src).2 = t at h1 h3
  rw [← h1]
  rcases h3 with ht | ht
  · subst ht
    simpa using c08_wellDelimited_partial d [] e [] ps h2
  · apply scan_core d [] e [] ps t h2 (tailText_unterminated d e t ht)
    intro m outs hg hL0 hLt _
    left
    obtain ⟨st, hrun, hfk⟩ := srun_unterminated d e t ht m outs hg
    rw [hrun]
    have hne : renderAll [d] [e] ps ++ t ≠ [] := by
      obtain ⟨stuff, rfl, _⟩ := ht; simp
    obtain ⟨stuff, htt, _⟩ := ht
    have htne : t ≠ [] := by rw [htt]; simp
    simp only [sFlush, hne, ite_false, hfk]
    cases m with
    | T acc =>
      simp only [emitOf, mfinish]
      by_cases ha : acc = []
      · subst ha
        simp only [ne_eq, not_true_eq_false, ite_false, List.nil_append, htne, not_false_eq_true, ite_true]
        have : NoAdjS (outs ++ [(TKind.text, t)]) := by simpa [mfinish, htne] using hLt
        rw [sMerge_id _ this [] (by simpa using this)]
        simp
      · have hat : acc ++ t ≠ [] := by simp [ha]
        simp only [ha, ne_eq, not_false_eq_true, ite_true, hat, List.append_assoc, List.cons_append, List.nil_append]
        have : NoAdjS (outs ++ [(TKind.text, acc)]) := by simpa [mfinish, ha] using hL0
        exact sMerge_last_text outs acc t this
    | G tag =>
      simp only [emitOf, mfinish, htne, ne_eq, not_false_eq_true, ite_true]
      have : NoAdjS (outs ++ [(TKind.element, tag)] ++ [(TKind.text, t)]) := by simpa [mfinish, htne] using hLt
      rw [sMerge_id _ this [] (by simpa using this)]
      simp

end Chiritori.Props.C08
