import Chiritori.Props.C18RenameLines
import Chiritori.Props.C08Wide
/-
  C18 byte for byte on the wide region of C08: the texts of the document may contain the characters of both delimiter
  pairs - the first ones included - as long as the pieces fit both pairs in the sense of `wideOK` (Props/C08Wide.lean)
  and the tag bodies can be stripped of both pairs.

  What the conclusions say: there is ONE piece list `qs` of which `out` is the rendering under the first spelling and
  `out'` the rendering under the second; and `qs` is, piece by piece, the list of the tokens of the source that survive
  the removal of the ready elements (`survivors`): a tag piece is an element token as it stands, a text piece is a text
  token minus the bytes of `F`, which are whitespace (`PExact`, `WsOnly`; `pexact_tags`: as many pieces as surviving
  tokens, the tags of `qs` are the surviving tags in order).  Without that link a text piece could swallow what looks
  like a tag.
-/
namespace Chiritori.Props.C18
open Chiritori Chiritori.Spec Chiritori.Props.C19

theorem respell_exact_wide (d0 : Char) (dr : List Char) (e0 : Char) (er : List Char)
    (d0' : Char) (dr' : List Char) (e0' : Char) (er' : List Char)
    (hd0 : wsChar d0 = false) (hel : ∀ w c, (e0 :: er) = w ++ [c] → wsChar c = false)
    (hd0' : wsChar d0' = false) (hel' : ∀ w c, (e0' :: er') = w ++ [c] → wsChar c = false)
    (ps : List Piece)
    (hw : wideOK (d0 :: dr) (e0 :: er) ps [] = true) (hw' : wideOK (d0' :: dr') (e0' :: er') ps [] = true)
    (hstrip : ∀ p ∈ ps, p.strip (d0 :: dr) (e0 :: er) ∧ p.strip (d0' :: dr') (e0' :: er'))
    (cfg : Cfg) (out out' : List Char)
    (hnu : NoUnwrapAttr (parseSource (renderAll (d0 :: dr) (e0 :: er) ps) (d0 :: dr) (e0 :: er)))
    (h : clean (renderAll (d0 :: dr) (e0 :: er) ps) (d0 :: dr) (e0 :: er) cfg = .ok out)
    (h' : clean (renderAll (d0' :: dr') (e0' :: er') ps) (d0' :: dr') (e0' :: er') cfg = .ok out') :
    ∃ qs F F', out = renderAll (d0 :: dr) (e0 :: er) qs ∧ out' = renderAll (d0' :: dr') (e0' :: er') qs ∧
      PExact (d0 :: dr) (e0 :: er) F qs (survivors (renderAll (d0 :: dr) (e0 :: er) ps) (d0 :: dr) (e0 :: er) cfg) 0 ∧
      WsOnly F (toksBytes (survivors (renderAll (d0 :: dr) (e0 :: er) ps) (d0 :: dr) (e0 :: er) cfg)) ∧
      PExact (d0' :: dr') (e0' :: er') F' qs (survivors (renderAll (d0' :: dr') (e0' :: er') ps) (d0' :: dr') (e0' :: er') cfg) 0 ∧
      WsOnly F' (toksBytes (survivors (renderAll (d0' :: dr') (e0' :: er') ps) (d0' :: dr') (e0' :: er') cfg)) :=
  respell_exact_tn d0 dr e0 er d0' dr' e0' er' hd0 hel hd0' hel' ps hstrip
    (C08.tokenize_wide_tnorm d0 dr e0 er ps hw) (C08.tokenize_wide_tnorm d0' dr' e0' er' ps hw')
    cfg out out' hnu h h'

/-- the listing under the two spellings: the same line ranges, item by item -/
theorem list_lines_respelled_wide (d0 : Char) (dr : List Char) (e0 : Char) (er : List Char)
    (d0' : Char) (dr' : List Char) (e0' : Char) (er' : List Char)
    (hnl : ∀ c ∈ (d0 :: dr) ++ (e0 :: er), c ≠ '\n') (hnl' : ∀ c ∈ (d0' :: dr') ++ (e0' :: er'), c ≠ '\n')
    (ps : List Piece)
    (hw : wideOK (d0 :: dr) (e0 :: er) ps [] = true) (hw' : wideOK (d0' :: dr') (e0' :: er') ps [] = true)
    (hstrip : ∀ p ∈ ps, p.strip (d0 :: dr) (e0 :: er) ∧ p.strip (d0' :: dr') (e0' :: er'))
    (cfg : Cfg)
    (hnu : NoUnwrapAttr (parseSource (renderAll (d0 :: dr) (e0 :: er) ps) (d0 :: dr) (e0 :: er))) :
    (listMarkers (renderAll (d0 :: dr) (e0 :: er) ps) (d0 :: dr) (e0 :: er) cfg).map
        (fun x => lineRangeOf (bytesOf (renderAll (d0 :: dr) (e0 :: er) ps)) (x.1.start, x.1.stop)) =
    (listMarkers (renderAll (d0' :: dr') (e0' :: er') ps) (d0' :: dr') (e0' :: er') cfg).map
        (fun x => lineRangeOf (bytesOf (renderAll (d0' :: dr') (e0' :: er') ps)) (x.1.start, x.1.stop)) :=
  list_lines_respelled_tn d0 dr e0 er d0' dr' e0' er' hnl hnl' ps hstrip
    (C08.tokenize_wide_tnorm d0 dr e0 er ps hw) (C08.tokenize_wide_tnorm d0' dr' e0' er' ps hw') cfg hnu

/-- a change of tag names (and delimiters) on the wide region -/
theorem rename_exact_wide (d0 : Char) (dr : List Char) (e0 : Char) (er : List Char)
    (d0' : Char) (dr' : List Char) (e0' : Char) (er' : List Char)
    (ρ : List Char → List Char) (N : List Char → Prop) (hρ : RenOK ρ N)
    (hd0 : wsChar d0 = false) (hel : ∀ w c, (e0 :: er) = w ++ [c] → wsChar c = false)
    (hd0' : wsChar d0' = false) (hel' : ∀ w c, (e0' :: er') = w ++ [c] → wsChar c = false)
    (ps ps' : List Piece) (hren : PiecesRen ρ N ps ps')
    (hw : wideOK (d0 :: dr) (e0 :: er) ps [] = true) (hw' : wideOK (d0' :: dr') (e0' :: er') ps' [] = true)
    (hstrip : ∀ p ∈ ps, p.strip (d0 :: dr) (e0 :: er)) (hstrip' : ∀ p ∈ ps', p.strip (d0' :: dr') (e0' :: er'))
    (cfg : Cfg) (htl : N cfg.tlName) (hrm : N cfg.rmName) (out out' : List Char)
    (hnu : NoUnwrapAttr (parseSource (renderAll (d0 :: dr) (e0 :: er) ps) (d0 :: dr) (e0 :: er)))
    (h : clean (renderAll (d0 :: dr) (e0 :: er) ps) (d0 :: dr) (e0 :: er) cfg = .ok out)
    (h' : clean (renderAll (d0' :: dr') (e0' :: er') ps') (d0' :: dr') (e0' :: er')
      { cfg with tlName := ρ cfg.tlName, rmName := ρ cfg.rmName } = .ok out') :
    ∃ qs qs' F F', out = renderAll (d0 :: dr) (e0 :: er) qs ∧ out' = renderAll (d0' :: dr') (e0' :: er') qs' ∧
      PiecesRen ρ N qs qs' ∧
      PExact (d0 :: dr) (e0 :: er) F qs (survivors (renderAll (d0 :: dr) (e0 :: er) ps) (d0 :: dr) (e0 :: er) cfg) 0 ∧
      WsOnly F (toksBytes (survivors (renderAll (d0 :: dr) (e0 :: er) ps) (d0 :: dr) (e0 :: er) cfg)) ∧
      PExact (d0' :: dr') (e0' :: er') F' qs' (survivors (renderAll (d0' :: dr') (e0' :: er') ps') (d0' :: dr') (e0' :: er')
        { cfg with tlName := ρ cfg.tlName, rmName := ρ cfg.rmName }) 0 ∧
      WsOnly F' (toksBytes (survivors (renderAll (d0' :: dr') (e0' :: er') ps') (d0' :: dr') (e0' :: er')
        { cfg with tlName := ρ cfg.tlName, rmName := ρ cfg.rmName })) :=
  rename_exact_tn d0 dr e0 er d0' dr' e0' er' ρ N hρ hd0 hel hd0' hel' ps ps' hren hstrip hstrip'
    (C08.tokenize_wide_tnorm d0 dr e0 er ps hw) (C08.tokenize_wide_tnorm d0' dr' e0' er' ps' hw')
    cfg htl hrm out out' hnu h h'

/-! Non-vacuity: an HTML fragment whose text holds `<`, `>`, `/` and `*`, under `<!-- <` / `> -->` and `/* <` / `> */`. -/

def stripB (ds de : List Char) : Piece → Bool
  | .text _ => true
  | .tag b0 rest => !(ds.isPrefixOf ((b0 :: rest) ++ de)) && !(de.reverse.isPrefixOf (b0 :: rest).reverse)

theorem stripB_sound (ds de : List Char) (p : Piece) (h : stripB ds de p = true) : p.strip ds de := by
  cases p with
  | text s => trivial
  | tag b0 rest =>
    simp only [stripB, Bool.and_eq_true, Bool.not_eq_true'] at h
    exact ⟨h.1, h.2⟩

def widePs : List Piece :=
  [.text "<div>\n  ".toList, C08.mkTag "rm name='a'", .text "\n  <p>x / y * z</p>\n  ".toList, C08.mkTag "/rm",
   .text "\n  <b>kept</b>\n</div>\n".toList]
def wideCfg : Cfg := ⟨"tl".toList, "rm".toList, 1577836800, 0, "+00:00".toList, ["a".toList]⟩

set_option maxRecDepth 16384 in
example : wideOK "<!-- <".toList "> -->".toList widePs [] = true ∧ wideOK "/* <".toList "> */".toList widePs [] = true ∧
    (widePs.all fun p => stripB "<!-- <".toList "> -->".toList p && stripB "/* <".toList "> */".toList p) = true ∧
    (widePs.all fun p => match p with | .text s => !s.contains '<' && !s.contains '/' | _ => true) = false := by
  decide +kernel

set_option maxRecDepth 16384 in
example : outIs (clean (renderAll "<!-- <".toList "> -->".toList widePs) "<!-- <".toList "> -->".toList wideCfg)
      "<div>\n  <b>kept</b>\n</div>\n" = true ∧
    outIs (clean (renderAll "/* <".toList "> */".toList widePs) "/* <".toList "> */".toList wideCfg)
      "<div>\n  <b>kept</b>\n</div>\n" = true := by decide +kernel

/-- an instance in which a tag SURVIVES (a pending `tl`), so that the two outputs differ - in the spelling of that tag only -/
def widePs2 : List Piece :=
  [.text "<div>\n  ".toList, C08.mkTag "rm name='a'", .text "\n  <p>x / y * z</p>\n  ".toList, C08.mkTag "/rm",
   .text "\n  ".toList, C08.mkTag "tl to='2999-01-01 00:00:00'", .text "\n  <b>kept / later</b>\n  ".toList, C08.mkTag "/tl",
   .text "\n</div>\n".toList]

set_option maxRecDepth 16384 in
example : wideOK "<!-- <".toList "> -->".toList widePs2 [] = true ∧ wideOK "/* <".toList "> */".toList widePs2 [] = true ∧
    (widePs2.all fun p => stripB "<!-- <".toList "> -->".toList p && stripB "/* <".toList "> */".toList p) = true := by
  decide +kernel

set_option maxRecDepth 16384 in
example : outIs (clean (renderAll "<!-- <".toList "> -->".toList widePs2) "<!-- <".toList "> -->".toList wideCfg)
      "<div>\n  <!-- <tl to='2999-01-01 00:00:00'> -->\n  <b>kept / later</b>\n  <!-- </tl> -->\n</div>\n" = true ∧
    outIs (clean (renderAll "/* <".toList "> */".toList widePs2) "/* <".toList "> */".toList wideCfg)
      "<div>\n  /* <tl to='2999-01-01 00:00:00'> */\n  <b>kept / later</b>\n  /* </tl> */\n</div>\n" = true := by decide +kernel

end Chiritori.Props.C18
