import Chiritori.Lemmas.FormatMerge
/-
  C02 — No over-removal, C03 — No under-removal (proved together).

  `Statement`: whenever `clean` returns, its output is the input with exactly the ready extents
  (Spec.extentsOfSource: whole element for the default strategy, the two wrapper parts of C11 for unwrap-block,
  of every element whose condition holds and that is not skipped) taken out, and then some spaces, tabs and
  line breaks taken out (`Spec.wsSubseq` = the greedy, complete decision procedure for that relation).
  * C02: nothing outside the extents disappears except whitespace; order is preserved (a subsequence).
  * C03: every byte inside a ready extent disappears - also for elements nested in pending, skipped or
    unregistered elements, in other ready elements, or in the body of an unwrap-block.
  That `clean` does return (never panics) is C01.
-/
namespace Chiritori.Props.C02
open Chiritori Chiritori.Spec

/-- marker coverage as `inAny` of the marker ranges -/
theorem inAny_markers (ms : List Marker) (i : Nat) :
    inAny (ms.map fun m => (m.start, m.stop)) i = true ↔ mcov ms i := by
  simp [inAny, mcov, Rng.contains]

theorem minusRanges_congr (b : Bytes) (rs rs' : List Rng) (h : ∀ i, inAny rs i = inAny rs' i) :
    minusRanges b rs = minusRanges b rs' := by
  rw [minusRanges_eq_minusFrom, minusRanges_eq_minusFrom]
  exact minusFrom_congr b 0 rs rs' (fun i _ _ => h i)

/-- what `remove` leaves: the source minus the ready extents -/
theorem removed_eq (src ds de : List Char) (cfg : Cfg) (hde : de ≠ []) (removed : Bytes)
    (h : removeMarkers (bytesOf src) (buildRemoveMarker cfg (bytesOf src) (parseSource src ds de)) = .ok removed) :
    removed = minusRanges (bytesOf src) (extentsOfSource src ds de cfg) := by
  obtain ⟨hs, hc⟩ := buildRemoveMarker_spec src ds de cfg hde
  rw [removeMarkers_eq _ _ 0 (blen src) hs removed h]
  apply minusRanges_congr
  intro i
  rw [Bool.eq_iff_iff, inAny_markers, hc i]

def Statement : Prop :=
  ∀ (src ds de : List Char) (cfg : Cfg) (out : List Char), ds ≠ [] → de ≠ [] →
    clean src ds de cfg = .ok out → c02c03Holds src ds de cfg out = true

theorem c02_c03 : Statement := by
  intro src ds de cfg out _ hde h
  unfold clean at h
  simp only [bind, Except.bind, pure, Except.pure] at h
  cases hrm : removeMarkers (bytesOf src) (buildRemoveMarker cfg (bytesOf src) (parseSource src ds de)) with
  | error e => rw [hrm] at h; simp at h
  | ok removed =>
    rw [hrm] at h
    simp only at h
    cases hpos : getRemovedPos (buildRemoveMarker cfg (bytesOf src) (parseSource src ds de)) with
    | error e => rw [hpos] at h; simp at h
    | ok pos =>
      rw [hpos] at h
      simp only at h
      cases hf : format removed pos with
      | error e => rw [hf] at h; simp at h
      | ok o =>
        rw [hf] at h
        simp only at h
        injection h with h
        subst h
        have hremoved := removed_eq src ds de cfg hde removed hrm
        obtain ⟨s1, hs1⟩ := deleteAll_wellFormed src _ removed hrm
        rw [hs1] at hf
        obtain ⟨hws, s2, hs2⟩ := format_wsSub s1 pos o hf
        unfold c02c03Holds
        rw [← hremoved, hs1, hs2, charsOf_bytesOf, ← hs2]
        exact wsSubseq_of_WsSub _ _ hws

/-! Corollaries in the words of the properties. -/

/-- C03: the non-whitespace text of the output is the non-whitespace text of the input minus the ready extents -/
theorem nonws_eq (k o : Bytes) (h : WsSub k o) : k.filter (fun x => !isWs x) = o.filter (fun x => !isWs x) := by
  induction h with
  | nil => rfl
  | keep x _ ih => simp [List.filter_cons, ih]
  | skip x hx _ ih => simp [List.filter_cons, hx, ih]

/-- C02: the output is a subsequence of the input (cleaning only deletes, order is preserved) -/
theorem sublist_of_WsSub (k o : Bytes) (h : WsSub k o) : o.Sublist k := by
  induction h with
  | nil => exact List.Sublist.slnil
  | keep x _ ih => exact ih.cons_cons x
  | skip x _ _ ih => exact ih.cons x

/-- `c02_c03` as a relation: the output is the source without the ready extents, with some whitespace bytes left out
    and nothing else changed -/
theorem clean_wsSub (src ds de : List Char) (cfg : Cfg) (out : List Char) (hde : de ≠ [])
    (h : clean src ds de cfg = .ok out) :
    WsSub (minusRanges (bytesOf src) (extentsOfSource src ds de cfg)) (bytesOf out) := by
  unfold clean at h
  simp only [bind, Except.bind, pure, Except.pure] at h
  cases hrm : removeMarkers (bytesOf src) (buildRemoveMarker cfg (bytesOf src) (parseSource src ds de)) with
  | error e => rw [hrm] at h; simp at h
  | ok removed =>
    rw [hrm] at h
    simp only at h
    cases hpos : getRemovedPos (buildRemoveMarker cfg (bytesOf src) (parseSource src ds de)) with
    | error e => rw [hpos] at h; simp at h
    | ok pos =>
      rw [hpos] at h
      simp only at h
      cases hf : format removed pos with
      | error e => rw [hf] at h; simp at h
      | ok o =>
        rw [hf] at h
        simp only at h
        injection h with h
        subst h
        have hremoved := removed_eq src ds de cfg hde removed hrm
        obtain ⟨s1, hs1⟩ := deleteAll_wellFormed src _ removed hrm
        rw [hs1] at hf
        obtain ⟨hws, s2, hs2⟩ := format_wsSub s1 pos o hf
        rw [← hremoved, hs1, hs2, charsOf_bytesOf, ← hs2]
        exact hws

/-- C03, about `clean` itself: the non-whitespace bytes of the output are those of the source minus the ready extents -/
theorem clean_nonws (src ds de : List Char) (cfg : Cfg) (out : List Char) (hde : de ≠ [])
    (h : clean src ds de cfg = .ok out) :
    (minusRanges (bytesOf src) (extentsOfSource src ds de cfg)).filter (fun x => !isWs x) =
      (bytesOf out).filter (fun x => !isWs x) :=
  nonws_eq _ _ (clean_wsSub src ds de cfg out hde h)

/-- C02, about `clean` itself: the output is a subsequence of the source minus the ready extents -/
theorem clean_sublist (src ds de : List Char) (cfg : Cfg) (out : List Char) (hde : de ≠ [])
    (h : clean src ds de cfg = .ok out) :
    (bytesOf out).Sublist (minusRanges (bytesOf src) (extentsOfSource src ds de cfg)) :=
  sublist_of_WsSub _ _ (clean_wsSub src ds de cfg out hde h)

/-! Non-vacuity: a document with a ready element nested in a pending one, and an unwrap-block. -/
def exCfg : Cfg := ⟨"tl".toList, "rm".toList, 1577836800, 0, "+00:00".toList, ["a".toList]⟩
def exSrc : List Char :=
  "a\n<rm name='b'>\n  <tl to='2000-01-01 00:00:00'>\n  x\n  </tl>\ny\n</rm>\n<rm name='a' unwrap-block>\n{\n  z\n}\n</rm>\n".toList
example : (extentsOfSource exSrc "<".toList ">".toList exCfg).length = 3 := by decide +kernel
example : (match clean exSrc "<".toList ">".toList exCfg with
    | .ok o => o == "a\n<rm name='b'>\ny\n</rm>\nz\n".toList
    | .error _ => false) = true := by decide +kernel

end Chiritori.Props.C02
