import Chiritori.Spec.Holds
namespace Chiritori.Props.C02
end Chiritori.Props.C02
