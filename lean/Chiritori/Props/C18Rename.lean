import Chiritori.Lemmas.Rename
import Chiritori.Props.C18Exact
/-
  C18, tag names: a document whose tags are grammar tags (C09), without `unwrap-block`, written under one spelling -
  delimiters and tag names - and under another, is cleaned to one and the same sequence of pieces under the respective
  spelling: texts byte for byte, tags the same grammar tags with the renamed names.
-/
namespace Chiritori.Props.C18
open Chiritori Chiritori.Spec

/-- two piece lists that differ in the names of their (grammar) tags only -/
def PiecesRen (ρ : List Char → List Char) (N : List Char → Prop) : List Piece → List Piece → Prop
  | [], [] => True
  | .text s :: ps, .text s' :: qs => s = s' ∧ PiecesRen ρ N ps qs
  | .tag b0 rest :: ps, .tag b0' rest' :: qs =>
    (∃ tg : TagS, tg.ok ∧ N tg.name ∧ b0 :: rest = tg.render ∧ b0' :: rest' = (renTag ρ tg).render) ∧ PiecesRen ρ N ps qs
  | _, _ => False

/-- the readiness decision along a renaming that is injective on the names in play -/
theorem cond_ren (ρ : List Char → List Char) (N : List Char → Prop) (hρ : RenOK ρ N) (cfg : Cfg)
    (htl : N cfg.tlName) (hrm : N cfg.rmName) (el : Element) (hn : N el.name) :
    conditionHolds { cfg with tlName := ρ cfg.tlName, rmName := ρ cfg.rmName } (renEl ρ el) = conditionHolds cfg el := by
  have e1 : (ρ el.name == ρ cfg.rmName) = (el.name == cfg.rmName) := by
    rw [Bool.eq_iff_iff]; simp only [beq_iff_eq]
    exact ⟨hρ.inj _ _ hn hrm, fun h => by rw [h]⟩
  have e2 : (ρ el.name == ρ cfg.tlName) = (el.name == cfg.tlName) := by
    rw [Bool.eq_iff_iff]; simp only [beq_iff_eq]
    exact ⟨hρ.inj _ _ hn htl, fun h => by rw [h]⟩
  have e3 : (ρ el.name != ρ cfg.rmName) = (el.name != cfg.rmName) := by simp only [bne, e1]
  simp only [conditionHolds, renEl, hasAttr, targeted, expired, attrValue, e1, e2, e3]

/-- the tokens of two piece lists that differ in tag names only correspond -/
theorem tokNs_of_tnorm (ds de ds' de' : List Char) (ρ : List Char → List Char) (N : List Char → Prop) :
    ∀ (ps ps' : List Piece) (acc : List Char) (T T' : List Token), PiecesRen ρ N ps ps' →
    (∀ p ∈ ps, p.strip ds de) → (∀ p ∈ ps', p.strip ds' de') →
    T.map (fun t => (t.kind, t.value)) = tnorm ds de [] ps acc →
    T'.map (fun t => (t.kind, t.value)) = tnorm ds' de' [] ps' acc → TokNs ds de ds' de' ρ N (fun _ _ => True) T T'
  | [], [], acc, T, T', _, _, _, hT, hT' => by
    simp only [tnorm, List.append_nil] at hT hT'
    split at hT
    · rename_i hacc
      rw [if_pos hacc] at hT'
      cases T with
      | nil => simp at hT
      | cons x xs =>
        cases T' with
        | nil => simp at hT'
        | cons y ys =>
          simp only [List.map_cons, List.cons.injEq, Prod.mk.injEq, List.map_eq_nil_iff] at hT hT'
          obtain ⟨⟨xk, xv⟩, rfl⟩ := hT
          obtain ⟨⟨yk, yv⟩, rfl⟩ := hT'
          exact ⟨⟨⟨by rw [xk, yk], Or.inl ⟨xk, by rw [xv, yv]⟩⟩, trivial⟩, trivial⟩
    · rename_i hacc
      rw [if_neg hacc] at hT'
      simp only [List.map_eq_nil_iff] at hT hT'
      subst hT hT'
      trivial
  | [], _ :: _, _, _, _, h, _, _, _, _ => absurd h (by simp [PiecesRen])
  | .text _ :: _, [], _, _, _, h, _, _, _, _ => absurd h (by simp [PiecesRen])
  | .tag _ _ :: _, [], _, _, _, h, _, _, _, _ => absurd h (by simp [PiecesRen])
  | .text _ :: _, .tag _ _ :: _, _, _, _, h, _, _, _, _ => absurd h (by simp [PiecesRen])
  | .tag _ _ :: _, .text _ :: _, _, _, _, h, _, _, _, _ => absurd h (by simp [PiecesRen])
  | .text s :: ps, .text s' :: ps', acc, T, T', h, hf, hf', hT, hT' => by
    simp only [PiecesRen] at h
    obtain ⟨rfl, hrest⟩ := h
    simp only [tnorm] at hT hT'
    exact tokNs_of_tnorm ds de ds' de' ρ N ps ps' (acc ++ s) T T' hrest (fun p hp => hf p (by simp [hp]))
      (fun p hp => hf' p (by simp [hp])) hT hT'
  | .tag b0 rest :: ps, .tag b0' rest' :: ps', acc, T, T', h, hf, hf', hT, hT' => by
    simp only [PiecesRen] at h
    obtain ⟨⟨tg, hok, hn, hb, hb'⟩, hrest⟩ := h
    simp only [tnorm] at hT hT'
    obtain ⟨T12, T3, e1, hT12, hT3⟩ := map_eq_append_split _ T _ _ hT
    obtain ⟨T1, T2, e2, hT1, hT2⟩ := map_eq_append_split _ T12 _ _ hT12
    obtain ⟨U12, U3, f1, hU12, hU3⟩ := map_eq_append_split _ T' _ _ hT'
    obtain ⟨U1, U2, f2, hU1, hU2⟩ := map_eq_append_split _ U12 _ _ hU12
    subst e1 e2 f1 f2
    have ih := tokNs_of_tnorm ds de ds' de' ρ N ps ps' [] T3 U3 hrest (fun p hp => hf p (by simp [hp]))
      (fun p hp => hf' p (by simp [hp])) hT3 hU3
    have hfr := hf (.tag b0 rest) (by simp)
    have hfr' := hf' (.tag b0' rest') (by simp)
    simp only [Piece.strip] at hfr hfr'
    cases T2 with
    | nil => simp at hT2
    | cons u us =>
      cases U2 with
      | nil => simp at hU2
      | cons v vs =>
        simp only [List.map_cons, List.cons.injEq, Prod.mk.injEq, List.map_eq_nil_iff] at hT2 hU2
        obtain ⟨⟨uk, uv⟩, rfl⟩ := hT2
        obtain ⟨⟨vk, vv⟩, rfl⟩ := hU2
        have htag : TokNR ds de ds' de' ρ N (fun _ _ => True) u v :=
          ⟨⟨by rw [uk, vk], Or.inr ⟨uk, tg, hok, hn, by rw [uv, ← hb]; simp, by rw [vv, ← hb']; simp,
            by rw [← hb]; exact hfr, by rw [← hb']; exact hfr'⟩⟩, trivial⟩
        have h1 : TokNs ds de ds' de' ρ N (fun _ _ => True) T1 U1 := by
          split at hT1
          · rename_i hacc
            rw [if_pos hacc] at hU1
            cases T1 with
            | nil => simp at hT1
            | cons x xs =>
              cases U1 with
              | nil => simp at hU1
              | cons y ys =>
                simp only [List.map_cons, List.cons.injEq, Prod.mk.injEq, List.map_eq_nil_iff] at hT1 hU1
                obtain ⟨⟨xk, xv⟩, rfl⟩ := hT1
                obtain ⟨⟨yk, yv⟩, rfl⟩ := hU1
                exact ⟨⟨⟨by rw [xk, yk], Or.inl ⟨xk, by rw [xv, yv]⟩⟩, trivial⟩, trivial⟩
          · rename_i hacc
            rw [if_neg hacc] at hU1
            simp only [List.map_eq_nil_iff] at hT1 hU1
            subst hT1 hU1
            trivial
        exact TokNs_append ds de ds' de' ρ N (fun _ _ => True) _ _ _ _ (TokNs_append ds de ds' de' ρ N (fun _ _ => True) _ _ [u] [v] h1 ⟨htag, trivial⟩) ih

/-- the facts the position correspondence needs, from corresponding token lists -/
theorem tokFacts_of_n (d0 : Char) (dr : List Char) (e0 : Char) (er : List Char)
    (d0' : Char) (dr' : List Char) (e0' : Char) (er' : List Char) (ρ : List Char → List Char) (N : List Char → Prop)
    (hd0 : wsChar d0 = false) (hel : ∀ w c, (e0 :: er) = w ++ [c] → wsChar c = false)
    (hd0' : wsChar d0' = false) (hel' : ∀ w c, (e0' :: er') = w ++ [c] → wsChar c = false) :
    ∀ (L L' : List Token), TokNs (d0 :: dr) (e0 :: er) (d0' :: dr') (e0' :: er') ρ N (fun _ _ => True) L L' →
    (∀ t ∈ L, t.value ≠ [] ∧ TokShapeW (d0 :: dr) (e0 :: er) (t.kind, t.value)) →
    (∀ t ∈ L', t.value ≠ [] ∧ TokShapeW (d0' :: dr') (e0' :: er') (t.kind, t.value)) →
    TokFacts L L'
  | [], [], _, _, _ => by
    refine ⟨trivial, ⟨rfl, ?_⟩, ?_, ?_, ?_, ?_⟩
    · intro m t u h; simp at h
    · intro t ht; cases ht
    · intro t ht; cases ht
    · intro t ht; cases ht
    · intro t ht; cases ht
  | [], _ :: _, h, _, _ => absurd h (by simp [TokNs])
  | _ :: _, [], h, _, _ => absurd h (by simp [TokNs])
  | t :: L, u :: L', h, h1, h2 => by
    simp only [TokNs] at h
    obtain ⟨⟨⟨hk, hx⟩, _⟩, hrest⟩ := h
    have ih := tokFacts_of_n d0 dr e0 er d0' dr' e0' er' ρ N hd0 hel hd0' hel' L L' hrest
      (fun x hx' => h1 x (by simp [hx'])) (fun x hx' => h2 x (by simp [hx']))
    obtain ⟨n1, s1⟩ := h1 t (by simp)
    obtain ⟨n2, s2⟩ := h2 u (by simp)
    have hpair : TokPair t u := by
      rcases hx with ⟨hkt, hv⟩ | ⟨hkt, _⟩
      · exact Or.inl ⟨hkt, by rw [← hk]; exact hkt, hv⟩
      · have hku : u.kind = .element := by rw [← hk]; exact hkt
        refine Or.inr ⟨hkt, hku, ?_, ?_⟩
        · rw [hkt] at s1; exact edgeOK_of_shape d0 dr e0 er hd0 hel _ s1
        · rw [hku] at s2; exact edgeOK_of_shape d0' dr' e0' er' hd0' hel' _ s2
    refine ⟨⟨hpair, ih.pairs⟩, ⟨by simp [ih.same.1], ?_⟩, ?_, ?_, ?_, ?_⟩
    · intro m a b ha hb hka
      cases m with
      | zero =>
        simp only [List.getElem?_cons_zero, Option.some.injEq] at ha hb
        subst ha hb
        rcases hx with ⟨_, hv⟩ | ⟨hke, _⟩
        · rw [hv]
        · rw [hka] at hke; cases hke
      | succ j =>
        simp only [List.getElem?_cons_succ] at ha hb
        exact ih.same.2 j a b ha hb hka
    · intro x hx'
      rcases List.mem_cons.mp hx' with rfl | hx'
      · exact blen_pos_of_ne_nil n1
      · exact ih.ne x hx'
    · intro x hx'
      rcases List.mem_cons.mp hx' with rfl | hx'
      · exact blen_pos_of_ne_nil n2
      · exact ih.ne' x hx'
    · intro x hx' hkx
      rcases List.mem_cons.mp hx' with rfl | hx'
      · rw [hkx] at s1
        obtain ⟨⟨c0, r0, e0', n0⟩, ⟨w1, c1, f1, m1⟩⟩ := edgeOK_of_shape d0 dr e0 er hd0 hel _ s1
        refine ⟨⟨.lead c0, by rw [e0']; simp [bytesOf, charBytes], by rw [isWs_lead]; exact n0⟩, ?_⟩
        obtain ⟨y, hy, hyc⟩ := bytesOf_last w1 c1
        rw [← f1] at hy
        rw [List.getLast?_eq_getElem?, length_bytesOf] at hy
        refine ⟨y, hy, ?_⟩
        rcases hyc with rfl | rfl
        · exact isWs_cont
        · rw [isWs_lead]; exact m1
      · exact ih.edges x hx' hkx
    · intro x hx'
      rcases List.mem_cons.mp hx' with rfl | hx'
      · cases hkk : x.kind with
        | text => exact Or.inl rfl
        | element => exact Or.inr rfl
      · exact ih.kinds x hx'

theorem tokNs_get (ds de ds' de' : List Char) (ρ : List Char → List Char) (N : List Char → Prop) :
    ∀ (A B : List Token) (i : Nat) (hA : i < A.length) (hB : i < B.length),
    TokNs ds de ds' de' ρ N (fun _ _ => True) A B → TokN ds de ds' de' ρ N A[i] B[i]
  | [], _, i, hA, _, _ => by simp at hA
  | _ :: _, [], i, _, hB, _ => by simp at hB
  | a :: as, b :: bs, i, hA, hB, hAB => by
    simp only [TokNs] at hAB
    cases i with
    | zero => exact hAB.1.1
    | succ j => exact tokNs_get ds de ds' de' ρ N as bs j (by simpa using hA) (by simpa using hB) hAB.2

/-- pieces that describe corresponding token lists with corresponding deletions differ in tag names only -/
theorem pexact_ren (ds de ds' de' : List Char) (ρ : List Char → List Char) (N : List Char → Prop)
    (L L' : List Token) (hf : TokFacts L L')
    (hx : TokNs ds de ds' de' ρ N (fun _ _ => True) L L') (F F' : List Rng) (hF : RelRs (Rho L L') F F') :
    ∀ (n m : Nat) (qs qs' : List Piece), L.length - m = n → m ≤ L.length →
    PExact ds de F qs (L.drop m) (bnd L m) → PExact ds' de' F' qs' (L'.drop m) (bnd L' m) → PiecesRen ρ N qs qs'
  | 0, m, qs, qs', hn, hm, h1, h2 => by
    have e : L.drop m = [] := List.drop_of_length_le (by omega)
    have e' : L'.drop m = [] := List.drop_of_length_le (by rw [← hf.same.1]; omega)
    rw [e] at h1; rw [e'] at h2
    cases qs with
    | nil =>
      cases qs' with
      | nil => trivial
      | cons q _ => cases q <;> simp [PExact] at h2
    | cons q _ => cases q <;> simp [PExact] at h1
  | n + 1, m, qs, qs', hn, hm, h1, h2 => by
    have hlt : m < L.length := by omega
    have hlt' : m < L'.length := by rw [← hf.same.1]; exact hlt
    have e : L.drop m = L[m] :: L.drop (m + 1) := List.drop_eq_getElem_cons hlt
    have e' : L'.drop m = L'[m] :: L'.drop (m + 1) := List.drop_eq_getElem_cons hlt'
    have ht : L[m]? = some L[m] := List.getElem?_eq_getElem hlt
    have hu : L'[m]? = some L'[m] := List.getElem?_eq_getElem hlt'
    rw [e] at h1; rw [e'] at h2
    have hb := bnd_succ L m _ ht
    have hb' := bnd_succ L' m _ hu
    have hxm : TokN ds de ds' de' ρ N L[m] L'[m] := tokNs_get ds de ds' de' ρ N L L' m hlt hlt' hx
    have hmono := rho_mono L L' hf.ne hf.ne' hf.same
    cases qs with
    | nil => simp [PExact] at h1
    | cons q qs1 =>
      cases qs' with
      | nil => simp [PExact] at h2
      | cons q' qs1' =>
        cases q with
        | text v =>
          obtain ⟨k1, v1, r1⟩ := h1
          cases q' with
          | tag b0' rest' =>
            obtain ⟨k2, _, _⟩ := h2
            rw [hxm.1, k2] at k1; cases k1
          | text v' =>
            obtain ⟨k2, v2, r2⟩ := h2
            have hval : L[m].value = L'[m].value := by
              rcases hxm.2 with ⟨_, hv⟩ | ⟨hke, _⟩
              · exact hv
              · rw [k1] at hke; cases hke
            have hvv : v = v' := by
              apply bytesOf_inj
              rw [v1, v2, ← hval]
              apply minusFrom_congr2
              intro j hj
              rw [length_bytesOf] at hj
              exact inAny_rel (Rho L L') hmono F F' hF _ _ ⟨m, j, by omega, rfl, rfl, Or.inr ⟨_, ht, k1, by omega⟩⟩
            rw [length_bytesOf, ← hb] at r1
            rw [length_bytesOf, ← hb'] at r2
            simp only [PiecesRen]
            exact ⟨hvv, pexact_ren ds de ds' de' ρ N L L' hf hx F F' hF n (m + 1) qs1 qs1' (by omega) (by omega) r1 r2⟩
        | tag b0 rest =>
          obtain ⟨k1, v1, r1⟩ := h1
          cases q' with
          | text v' =>
            obtain ⟨k2, _, _⟩ := h2
            rw [hxm.1, k2] at k1; cases k1
          | tag b0' rest' =>
            obtain ⟨k2, v2, r2⟩ := h2
            rcases hxm.2 with ⟨hkt, _⟩ | ⟨_, tg, hok, hn', hv, hv', _, _⟩
            · rw [k1] at hkt; cases hkt
            · have e1 : tg.render = b0 :: rest := by
                rw [v1, List.append_assoc] at hv
                have := List.append_cancel_left hv
                exact (List.append_cancel_right this).symm
              have e2 : (renTag ρ tg).render = b0' :: rest' := by
                rw [v2, List.append_assoc] at hv'
                have := List.append_cancel_left hv'
                exact (List.append_cancel_right this).symm
              rw [length_bytesOf, ← hb] at r1
              rw [length_bytesOf, ← hb'] at r2
              simp only [PiecesRen]
              exact ⟨⟨tg, hok, hn', e1.symm, e2.symm⟩,
                pexact_ren ds de ds' de' ρ N L L' hf hx F F' hF n (m + 1) qs1 qs1' (by omega) (by omega) r1 r2⟩

/-- C18 for a change of tag names (and delimiters) in its general form: documents without `unwrap-block` whose tags are
    grammar tags and whose tokens are the normalised pieces under either spelling (`htn`, `htn'` - the conclusion of
    C08): the two spellings of one document are cleaned to the two spellings of one result -/
theorem rename_exact_tn (d0 : Char) (dr : List Char) (e0 : Char) (er : List Char)
    (d0' : Char) (dr' : List Char) (e0' : Char) (er' : List Char)
    (ρ : List Char → List Char) (N : List Char → Prop) (hρ : RenOK ρ N)
    (hd0 : wsChar d0 = false) (hel : ∀ w c, (e0 :: er) = w ++ [c] → wsChar c = false)
    (hd0' : wsChar d0' = false) (hel' : ∀ w c, (e0' :: er') = w ++ [c] → wsChar c = false)
    (ps ps' : List Piece) (hren : PiecesRen ρ N ps ps')
    (hstrip : ∀ p ∈ ps, p.strip (d0 :: dr) (e0 :: er)) (hstrip' : ∀ p ∈ ps', p.strip (d0' :: dr') (e0' :: er'))
    (htn : (tokenize (renderAll (d0 :: dr) (e0 :: er) ps) (d0 :: dr) (e0 :: er)).map (fun t => (t.kind, t.value))
      = tnorm (d0 :: dr) (e0 :: er) [] ps [])
    (htn' : (tokenize (renderAll (d0' :: dr') (e0' :: er') ps') (d0' :: dr') (e0' :: er')).map (fun t => (t.kind, t.value))
      = tnorm (d0' :: dr') (e0' :: er') [] ps' [])
    (cfg : Cfg) (htl : N cfg.tlName) (hrm : N cfg.rmName) (out out' : List Char)
    (hnu : NoUnwrapAttr (parseSource (renderAll (d0 :: dr) (e0 :: er) ps) (d0 :: dr) (e0 :: er)))
    (h : clean (renderAll (d0 :: dr) (e0 :: er) ps) (d0 :: dr) (e0 :: er) cfg = .ok out)
    (h' : clean (renderAll (d0' :: dr') (e0' :: er') ps') (d0' :: dr') (e0' :: er')
      { cfg with tlName := ρ cfg.tlName, rmName := ρ cfg.rmName } = .ok out') :
    ∃ qs qs' F F', out = renderAll (d0 :: dr) (e0 :: er) qs ∧ out' = renderAll (d0' :: dr') (e0' :: er') qs' ∧
      PiecesRen ρ N qs qs' ∧
      PExact (d0 :: dr) (e0 :: er) F qs (survivors (renderAll (d0 :: dr) (e0 :: er) ps) (d0 :: dr) (e0 :: er) cfg) 0 ∧
      WsOnly F (toksBytes (survivors (renderAll (d0 :: dr) (e0 :: er) ps) (d0 :: dr) (e0 :: er) cfg)) ∧
      PExact (d0' :: dr') (e0' :: er') F' qs' (survivors (renderAll (d0' :: dr') (e0' :: er') ps') (d0' :: dr') (e0' :: er')
        { cfg with tlName := ρ cfg.tlName, rmName := ρ cfg.rmName }) 0 ∧
      WsOnly F' (toksBytes (survivors (renderAll (d0' :: dr') (e0' :: er') ps') (d0' :: dr') (e0' :: er')
        { cfg with tlName := ρ cfg.tlName, rmName := ρ cfg.rmName })) := by
  have hT := tokNs_of_tnorm (d0 :: dr) (e0 :: er) (d0' :: dr') (e0' :: er') ρ N ps ps' [] _ _ hren hstrip hstrip' htn htn'
  have hG := parse_n (d0 :: dr) (e0 :: er) (d0' :: dr') (e0' :: er') ρ N (fun _ _ => True) hρ (by simp) (by simp) (by simp) (by simp) _ _ hT
  have hP : ∀ el, N el.name →
      conditionHolds { cfg with tlName := ρ cfg.tlName, rmName := ρ cfg.rmName } (renEl ρ el) = conditionHolds cfg el :=
    fun el hn => cond_ren ρ N hρ cfg htl hrm el hn
  have hnu' : NoUnwrapAttr (parseSource (renderAll (d0' :: dr') (e0' :: er') ps') (d0' :: dr') (e0' :: er')) := by
    intro e he
    have hm : e.1 ∈ (elementsOf (parseSource (renderAll (d0' :: dr') (e0' :: er') ps') (d0' :: dr') (e0' :: er'))).map (·.1) :=
      List.mem_map.mpr ⟨e, he, rfl⟩
    unfold parseSource at hm
    rw [elements_n _ _ _ _ _ _ _ _ _ hG] at hm
    obtain ⟨e1, he1, hee⟩ := List.mem_map.mp hm
    have := hnu e1 he1
    rw [← hee]
    exact this
  obtain ⟨qs, s1, ranges, o1, k1, hu1, x1, f1, w1⟩ := clean_exact d0 dr e0 er hd0 hel ps htn cfg out hnu h
  obtain ⟨qs', s1', ranges', o2, k2, hu2, x2, f2, w2⟩ := clean_exact d0' dr' e0' er' hd0' hel' ps' htn' _ out' hnu' h'
  unfold survivors
  unfold parseSource at hu1 hu2 k1 k2 x1 x2 f1 f2 ⊢
  have hx := flatten_n _ _ _ _ ρ N _ _ _ (prune_n _ _ _ _ ρ N _ (conditionHolds cfg)
    (conditionHolds { cfg with tlName := ρ cfg.tlName, rmName := ρ cfg.rmName }) hP _ _ hG)
  have hidx := seamIdx_n (d0 :: dr) (e0 :: er) (d0' :: dr') (e0' :: er') ρ N (fun _ _ => True) (conditionHolds cfg)
    (conditionHolds { cfg with tlName := ρ cfg.tlName, rmName := ρ cfg.rmName }) hP _ _ 0 hG
  rw [← hidx] at hu2
  generalize hL : flattenParts (pruneParts (conditionHolds cfg)
    (parse (d0 :: dr) (e0 :: er) (tokenize (renderAll (d0 :: dr) (e0 :: er) ps) (d0 :: dr) (e0 :: er)))) = L at *
  generalize hL' : flattenParts (pruneParts (conditionHolds { cfg with tlName := ρ cfg.tlName, rmName := ρ cfg.rmName })
    (parse (d0' :: dr') (e0' :: er') (tokenize (renderAll (d0' :: dr') (e0' :: er') ps') (d0' :: dr') (e0' :: er')))) = L' at *
  have hf := tokFacts_of_n d0 dr e0 er d0' dr' e0' er' ρ N hd0 hel hd0' hel' L L' hx f1 f2
  have hbound : ∀ k ∈ (seamIdxParts (conditionHolds cfg)
      (parse (d0 :: dr) (e0 :: er) (tokenize (renderAll (d0 :: dr) (e0 :: er) ps) (d0 :: dr) (e0 :: er))) 0).1, k ≤ L.length := by
    intro k hk
    have := seamIdx_le (conditionHolds cfg) _ 0 k hk
    rw [seamIdx_count, hL] at this
    omega
  have hrel := hulls_rel L L' hf s1 s1' k1 k2 _ ranges ranges' hbound hu1 hu2
  have hmono := rho_mono L L' hf.ne hf.ne' hf.same
  have hF := mergeOverlapped_rel (Rho L L') hmono ranges ranges' hrel
  have hres := pexact_ren (d0 :: dr) (e0 :: er) (d0' :: dr') (e0' :: er') ρ N L L' hf hx _ _ hF L.length 0 qs qs' rfl
    (Nat.zero_le _) (by simpa [bnd_zero] using x1) (by simpa [bnd_zero] using x2)
  rw [k1] at w1
  rw [k2] at w2
  exact ⟨qs, qs', _, _, o1, o2, hres, x1, w1, x2, w2⟩

/-- C18 for a change of tag names (and delimiters), documents without `unwrap-block` whose tags are grammar tags: the
    two spellings of one document are cleaned to the two spellings of one result -/
theorem rename_exact (d0 : Char) (dr : List Char) (e0 : Char) (er : List Char)
    (d0' : Char) (dr' : List Char) (e0' : Char) (er' : List Char)
    (ρ : List Char → List Char) (N : List Char → Prop) (hρ : RenOK ρ N)
    (hd0 : wsChar d0 = false) (hel : ∀ w c, (e0 :: er) = w ++ [c] → wsChar c = false)
    (hd0' : wsChar d0' = false) (hel' : ∀ w c, (e0' :: er') = w ++ [c] → wsChar c = false)
    (ps ps' : List Piece) (hren : PiecesRen ρ N ps ps')
    (hfree : ∀ p ∈ ps, p.fits d0 e0 (d0 :: dr) (e0 :: er)) (hfree' : ∀ p ∈ ps', p.fits d0' e0' (d0' :: dr') (e0' :: er'))
    (cfg : Cfg) (htl : N cfg.tlName) (hrm : N cfg.rmName) (out out' : List Char)
    (hnu : NoUnwrapAttr (parseSource (renderAll (d0 :: dr) (e0 :: er) ps) (d0 :: dr) (e0 :: er)))
    (h : clean (renderAll (d0 :: dr) (e0 :: er) ps) (d0 :: dr) (e0 :: er) cfg = .ok out)
    (h' : clean (renderAll (d0' :: dr') (e0' :: er') ps') (d0' :: dr') (e0' :: er')
      { cfg with tlName := ρ cfg.tlName, rmName := ρ cfg.rmName } = .ok out') :
    ∃ qs qs' F F', out = renderAll (d0 :: dr) (e0 :: er) qs ∧ out' = renderAll (d0' :: dr') (e0' :: er') qs' ∧
      PiecesRen ρ N qs qs' ∧
      PExact (d0 :: dr) (e0 :: er) F qs (survivors (renderAll (d0 :: dr) (e0 :: er) ps) (d0 :: dr) (e0 :: er) cfg) 0 ∧
      WsOnly F (toksBytes (survivors (renderAll (d0 :: dr) (e0 :: er) ps) (d0 :: dr) (e0 :: er) cfg)) ∧
      PExact (d0' :: dr') (e0' :: er') F' qs' (survivors (renderAll (d0' :: dr') (e0' :: er') ps') (d0' :: dr') (e0' :: er')
        { cfg with tlName := ρ cfg.tlName, rmName := ρ cfg.rmName }) 0 ∧
      WsOnly F' (toksBytes (survivors (renderAll (d0' :: dr') (e0' :: er') ps') (d0' :: dr') (e0' :: er')
        { cfg with tlName := ρ cfg.tlName, rmName := ρ cfg.rmName })) :=
  rename_exact_tn d0 dr e0 er d0' dr' e0' er' ρ N hρ hd0 hel hd0' hel' ps ps' hren
    (fun p hp => Piece.strip_of_fits _ _ _ _ p (hfree p hp)) (fun p hp => Piece.strip_of_fits _ _ _ _ p (hfree' p hp))
    (tokens_tnorm d0 dr e0 er ps (fun p hp => Piece.ok_of_fits _ _ _ _ p (hfree p hp)))
    (tokens_tnorm d0' dr' e0' er' ps' (fun p hp => Piece.ok_of_fits _ _ _ _ p (hfree' p hp)))
    cfg htl hrm out out' hnu h h'

/-! Non-vacuity: `tl` / `rm` rewritten to `time-limited` / `removal-marker` (and the closing forms with them), under
    `<` `>` resp. `[[` `]]`. -/
def exρ (n : List Char) : List Char :=
  if n = "tl".toList then "time-limited".toList
  else if n = "/tl".toList then "/time-limited".toList
  else if n = "rm".toList then "removal-marker".toList
  else if n = "/rm".toList then "/removal-marker".toList
  else n
def exN (n : List Char) : Prop := n ∈ ["tl".toList, "/tl".toList, "rm".toList, "/rm".toList]

theorem exN_cases (n : List Char) (h : exN n) :
    n = "tl".toList ∨ n = "/tl".toList ∨ n = "rm".toList ∨ n = "/rm".toList := by
  simpa [exN] using h

theorem nameOK_of (c : Char) (cs : List Char) (h1 : nameStart c = true) (h2 : cs.all nameChar = true) : NameOK (c :: cs) :=
  ⟨c, cs, rfl, h1, fun x hx => List.all_eq_true.mp h2 x hx⟩

theorem exρ_ok : RenOK exρ exN where
  inj := by
    intro a b ha hb h
    rcases exN_cases a ha with rfl | rfl | rfl | rfl <;> rcases exN_cases b hb with rfl | rfl | rfl | rfl <;>
      first | rfl | (exact absurd h (by decide))
  trim := by
    intro a ha
    rcases exN_cases a ha with rfl | rfl | rfl | rfl <;> decide
  closed := by
    intro a ha
    rcases exN_cases a ha with rfl | rfl | rfl | rfl <;> simp [exN, trimSlashes]
  head := by
    intro a ha
    rcases exN_cases a ha with rfl | rfl | rfl | rfl <;> decide
  nameOK := by
    intro a ha _
    rcases exN_cases a ha with rfl | rfl | rfl | rfl
    · exact nameOK_of 't' "ime-limited".toList (by decide) (by decide)
    · exact nameOK_of '/' "time-limited".toList (by decide) (by decide)
    · exact nameOK_of 'r' "emoval-marker".toList (by decide) (by decide)
    · exact nameOK_of '/' "removal-marker".toList (by decide) (by decide)

def exTagOpen : TagS := ⟨0, "tl".toList, [([' '], .quoted "to".toList 0 0 '\'' "2000-01-01 00:00:00".toList)], []⟩
def exTagClose : TagS := ⟨0, "/tl".toList, [], []⟩
def exPsA : List Piece :=
  [.text "a\n".toList, .tag 't' "l to='2000-01-01 00:00:00'".toList, .text "\nx\n".toList, .tag '/' "tl".toList, .text "\nb\n".toList]
def exPsB : List Piece :=
  [.text "a\n".toList, .tag 't' "ime-limited to='2000-01-01 00:00:00'".toList, .text "\nx\n".toList,
   .tag '/' "time-limited".toList, .text "\nb\n".toList]

theorem exTagOpen_ok : exTagOpen.ok :=
  ⟨nameOK_of 't' ['l'] (by decide) (by decide),
   by
     intro sa hsa
     simp only [exTagOpen, List.mem_singleton] at hsa
     subst hsa
     exact ⟨by simp, by intro c hc; simp at hc; subst hc; decide,
       nameOK_of 't' ['o'] (by decide) (by decide), Or.inr rfl, by decide⟩,
   (by intro c hc; cases hc)⟩
theorem exTagClose_ok : exTagClose.ok :=
  ⟨nameOK_of '/' "tl".toList (by decide) (by decide), (by intro sa hsa; cases hsa), (by intro c hc; cases hc)⟩

example : PiecesRen exρ exN exPsA exPsB := by
  refine ⟨rfl, ⟨exTagOpen, exTagOpen_ok, by simp [exN, exTagOpen], by decide, by decide⟩, rfl,
    ⟨exTagClose, exTagClose_ok, by simp [exN, exTagClose], by decide, by decide⟩, rfl, trivial⟩

def exCfgA : Cfg := ⟨"tl".toList, "rm".toList, 1577836800, 0, "+00:00".toList, []⟩
example : (clean (renderAll "<".toList ">".toList exPsA) "<".toList ">".toList exCfgA).toOption = some "a\nb\n".toList := by
  decide +kernel
example : (clean (renderAll "[[".toList "]]".toList exPsB) "[[".toList "]]".toList
    { exCfgA with tlName := exρ exCfgA.tlName, rmName := exρ exCfgA.rmName }).toOption = some "a\nb\n".toList := by
  decide +kernel

end Chiritori.Props.C18
