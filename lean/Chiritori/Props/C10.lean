import Chiritori.Lemmas.StackParse
/-
  C10 — Tags pair by name with stack discipline; stray tags are inert text.

  The reference is the left-to-right stack machine `Spec.stackParse` (Spec/Holds.lean):
  an opening tag pushes a frame; a closing tag `/name` (any number of leading slashes, as the code
  strips them all) whose name is open somewhere pops to the *innermost* frame of that name, demoting
  every frame above it to plain text and hoisting their children; every other tag-shaped token that
  does not parse, every closer without an open element and every opener still open at the end is text.
-/
namespace Chiritori.Props.C10
open Chiritori Chiritori.Spec

def Statement : Prop :=
  ∀ (ds de : List Char) (toks : List Token),
    parse ds de toks = stackParse ds de toks ∧ flattenParts (parse ds de toks) = toks

theorem c10 : Statement := fun ds de toks => ⟨parse_eq_stackParse ds de toks, parse_flatten ds de toks⟩

/-- termination of the real recursion is part of the result: `tokens.length + 1` units of fuel always suffice,
    i.e. more fuel never changes the outcome -/
theorem c10_source (src ds de : List Char) :
    parseSource src ds de = stackParse ds de (tokenize src ds de) ∧
    flattenParts (parseSource src ds de) = tokenize src ds de :=
  c10 ds de (tokenize src ds de)

/-! Concrete instances (kernel-evaluated): crossing tags, same-name nesting, stray closer. -/
def lt : List Char := "<".toList
def gt : List Char := ">".toList

/-- `<a><b></a></b>`: `</a>` closes `<a>`, `<b>` and `</b>` are text inside / after it -/
example : renderParts (parseSource "<a><b></a></b>".toList lt gt) = [1, 0, 6, 0, 3, 2, 0, 10] := by decide +kernel
/-- `<a><a></a>`: the closer closes the innermost `<a>`; the outer one is demoted to text -/
example : renderParts (parseSource "<a><a></a>".toList lt gt) = [0, 0, 1, 3, 6, 2] := by decide +kernel
/-- `</z>x<a>y</a>`: a stray closer does not stop the following element from being recognised -/
example : renderParts (parseSource "</z>x<a>y</a>".toList lt gt) = [0, 0, 0, 4, 1, 5, 9, 0, 8, 2] := by decide +kernel

end Chiritori.Props.C10
