import Chiritori.Spec.Holds
namespace Chiritori.Props.C10
end Chiritori.Props.C10
