import Chiritori.Lemmas.Tree
import Chiritori.Lemmas.Lines
import Chiritori.Props.C06
/-
  C04 — No-op identity when nothing is ready.

  `Statement`: if the reference evaluation (`Spec.nothingReady`: every element of the parse forest either
  fails its condition / is skipped / is unregistered, or has an empty extent because its unwrap-block cannot be
  unwrapped) finds no ready element, `clean` returns the source unchanged, byte for byte.
  Malformed, unclosed and stray tags are not elements of the forest at all (C10).
-/
namespace Chiritori.Props.C04
open Chiritori Chiritori.Spec

/-- the strategy's range is empty exactly when the reference extent is -/
theorem createRange_empty_of_extent_nil (b : Bytes) (el : Element) (st en : Token)
    (h1 : 0 < st.bstop) (h2 : en.bstart ≤ b.length) (he : extentOf b el st en = []) :
    (createRange b el st en).1.isEmpty = true := by
  unfold createRange
  unfold extentOf at he
  have ha : (el.attrs.any fun a => a.name == "unwrap-block".toList) = hasAttr el "unwrap-block" := rfl
  rw [ha]
  cases hu : hasAttr el "unwrap-block" with
  | true =>
    rw [hu] at he
    simp only [ite_true] at he ⊢
    rw [buildUnwrap_eq b st en h1 h2]
    cases hp : unwrapParts b st en with
    | none => simp [Rng.isEmpty]
    | some ht => obtain ⟨h, t⟩ := ht; rw [hp] at he; simp at he
  | false =>
    rw [hu] at he
    simp only [Bool.false_eq_true, ite_false] at he ⊢
    by_cases hlt : st.bstart < en.bstop
    · simp [hlt] at he
    · simp [buildRange, Rng.isEmpty]; omega

/-- what has to hold of every element for nothing to be collected -/
def NoneReady (cfg : Cfg) (content : Bytes) (parts : List Part) : Prop :=
  ∀ el st en, (el, st, en) ∈ elementsOf parts → elementRange cfg content false el st en = none

mutual
theorem collect_nil (cfg : Cfg) (content : Bytes) : ∀ (parts : List Part),
    NoneReady cfg content parts → (collect cfg content false parts).1 = []
  | [], _ => rfl
  | p :: ps, h => by
    have h1 := collectPart_nil cfg content p (fun el st en he => h el st en (by simp [elementsOf, he]))
    have h2 := collect_nil cfg content ps (fun el st en he => h el st en (by simp [elementsOf, he]))
    simp only [collect]
    rw [h1, h2]
    rfl
theorem collectPart_nil (cfg : Cfg) (content : Bytes) : ∀ (p : Part),
    (∀ el st en, (el, st, en) ∈ elementsOfPart p → elementRange cfg content false el st en = none) →
    (collectPart cfg content false p).1 = []
  | .text _, _ => rfl
  | .element el st en ch, h => by
    have h0 := h el st en (by simp [elementsOfPart])
    have hch := collect_nil cfg content ch (fun el' st' en' he => h el' st' en' (by simp [elementsOfPart, he]))
    simp only [collectPart, h0]
    exact hch
end

theorem clean_of_no_markers (src ds de : List Char) (cfg : Cfg)
    (h : buildRemoveMarker cfg (bytesOf src) (parseSource src ds de) = []) : clean src ds de cfg = .ok src := by
  unfold clean
  simp only [h]
  simp [removeMarkers, deleteAll, getRemovedPos, removedPosAux, format, formatCollect, mergeRanges, sortByStart,
    mergeOverlapped, deleteRanges, bind, Except.bind, pure, Except.pure]

def Statement : Prop :=
  ∀ (src ds de : List Char) (cfg : Cfg), ds ≠ [] → de ≠ [] →
    nothingReady src ds de cfg = true → clean src ds de cfg = .ok src

theorem c04 : Statement := by
  intro src ds de cfg _ hde hn
  apply clean_of_no_markers
  unfold buildRemoveMarker
  have hnone : NoneReady cfg (bytesOf src) (parseSource src ds de) := by
    intro el st en hmem
    have hb := element_token_bounds src ds de hde el st en hmem
    -- the reference says: condition fails, or the extent is empty
    have hext : conditionHolds cfg el = true → extentOf (bytesOf src) el st en = [] := by
      intro hc
      unfold nothingReady extentsOfSource readyExtents at hn
      rw [List.isEmpty_iff] at hn
      have := List.flatMap_eq_nil_iff.mp hn (el, st, en) hmem
      simpa [hc] using this
    cases her : elementRange cfg (bytesOf src) false el st en with
    | none => rfl
    | some rpb =>
      obtain ⟨r, p, b⟩ := rpb
      have hbt := Chiritori.elementRange_false_flag cfg _ el st en r p b her
      subst hbt
      obtain ⟨hc, hne⟩ := (C06.ready_iff cfg (bytesOf src) false el st en).mp ⟨r, p, her⟩
      have := createRange_empty_of_extent_nil (bytesOf src) el st en (by omega) (by simp; omega) (hext hc)
      rw [this] at hne
      exact absurd hne (by simp)
  rw [collect_nil cfg (bytesOf src) _ hnone]
  rfl

/-! Non-vacuity: a source with a pending element, a skipped ready element and an unwrap-block that cannot be unwrapped. -/
def exCfg : Cfg := ⟨"tl".toList, "rm".toList, 1577836800, 0, "+00:00".toList, ["a".toList]⟩
def exSrc : List Char :=
  "x\n<tl to='2999-01-01 00:00:00'>\ny\n</tl>\n<rm name='a' skip>\nz\n</rm>\n<rm name='a' unwrap-block>\nw\n</rm>\n".toList
example : nothingReady exSrc "<".toList ">".toList exCfg = true := by decide +kernel
example : (elementsOf (parseSource exSrc "<".toList ">".toList)).length = 3 := by decide +kernel

end Chiritori.Props.C04
