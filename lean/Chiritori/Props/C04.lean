import Chiritori.Spec.Holds
namespace Chiritori.Props.C04
end Chiritori.Props.C04
