import Chiritori.Spec.Holds
namespace Chiritori.Props.C18
end Chiritori.Props.C18
