import Chiritori.Props.C09
import Chiritori.Props.C10
import Chiritori.Lemmas.Decision
/-
  C18 — Behaviour is independent of the spelling of delimiters and tag names.

  Full statement: rewriting source and configuration consistently to another delimiter pair / other tag names
  yields the correspondingly rewritten output (for documents whose text contains no delimiter character).
  Proved - the three mechanisms the property names, each for all inputs:
  * delimiters are handled as character sequences: a tag token is `ds ++ body ++ de` whatever the delimiters are
    (C07 `tag_tokens_delimited`), and the element parser sees only the body (`body_only`: the parse of a token
    depends on the delimiters only through stripping them once);
  * pairing depends on names through equality only: the tree of a token list is the stack machine's (C10), which
    compares names and nothing else;
  * evaluators are looked up by the configured tag name: `rename_invariant` - renaming both configured names and
    every element name by an injective map preserves the readiness of every element (`conditionHolds`), the
    skip test and the strategy choice.
  End to end, byte for byte (Props/C18Exact.lean, `respell_exact`): for documents without `unwrap-block`, one piece
  list under two delimiter pairs is cleaned to one and the same piece list under the respective pair.
  End to end (Props/C18End.lean, `respell_default`): for default-strategy removals the same piece list under two
  delimiter pairs is cleaned to the same piece list under the respective pair, tags identical and texts equal up to
  whitespace.  Not proved: exact equality of the whitespace across a change of delimiters, unwrap-blocks, renamed
  tags end to end.
-/
namespace Chiritori.Props.C18
open Chiritori Chiritori.Spec

/-- the element parser sees the body only -/
theorem body_only (ds de ds' de' body : List Char) (t t' : Token)
    (hds : ds ≠ []) (hde : de ≠ []) (hds' : ds' ≠ []) (hde' : de' ≠ []) (hb : body ≠ [])
    (hk : t.kind = .element) (hk' : t'.kind = .element)
    (hv : t.value = ds ++ body ++ de) (hv' : t'.value = ds' ++ body ++ de')
    (h1 : ds.isPrefixOf (body ++ de) = false) (h2 : de.reverse.isPrefixOf body.reverse = false)
    (h1' : ds'.isPrefixOf (body ++ de') = false) (h2' : de'.reverse.isPrefixOf body.reverse = false) :
    elparse ds de t = elparse ds' de' t' := by
  rw [C09.elparse_of_body ds de body t hds hde hb hk hv h1 h2,
    C09.elparse_of_body ds' de' body t' hds' hde' hb hk' hv' h1' h2']

/-- renaming tag names consistently does not change any readiness decision -/
theorem rename_invariant (f : List Char → List Char) (hf : ∀ a b, f a = f b → a = b) (cfg : Cfg) (el : Element) :
    conditionHolds { cfg with tlName := f cfg.tlName, rmName := f cfg.rmName } { el with name := f el.name }
      = conditionHolds cfg el := by
  have e1 : (f el.name == f cfg.rmName) = (el.name == cfg.rmName) := by
    rw [Bool.eq_iff_iff]; simp only [beq_iff_eq]
    exact ⟨hf _ _, fun h => by rw [h]⟩
  have e2 : (f el.name == f cfg.tlName) = (el.name == cfg.tlName) := by
    rw [Bool.eq_iff_iff]; simp only [beq_iff_eq]
    exact ⟨hf _ _, fun h => by rw [h]⟩
  have e3 : (f el.name != f cfg.rmName) = (el.name != cfg.rmName) := by simp only [bne, e1]
  simp only [conditionHolds, hasAttr, targeted, expired, attrValue, e1, e2, e3]

theorem skip_name_free (el : Element) (n : List Char) : isSkip { el with name := n } = isSkip el := rfl

theorem strategy_name_free (b : Bytes) (el : Element) (n : List Char) (st en : Token) :
    createRange b { el with name := n } st en = createRange b el st en := rfl

/-- pairing compares names and nothing else: it is the stack machine's (C10) -/
theorem pairing_is_stack (ds de : List Char) (toks : List Token) : parse ds de toks = stackParse ds de toks :=
  (C10.c10 ds de toks).1

end Chiritori.Props.C18
