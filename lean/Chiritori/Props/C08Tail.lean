import Chiritori.Lemmas.ScanTail
import Chiritori.Props.C08Wide
/-
  C08 at the end of the document: `c08_wide_tail` extends `c08_wide` to sources that go on, behind the last complete
  piece, with a stretch in which no further tag is found (`wideOK2`, `tailFit`): plain text, a partial match of the
  start delimiter left pending at the very end (`x <!--`), or an unterminated tag - start delimiter, some body, no end
  delimiter, possibly a partial match of the end delimiter (`<!-- <time-limited to='2024-01-01 00:00:00'> --`).  Both
  the tokenizer and the textbook scan take that stretch as text.
-/
namespace Chiritori.Props.C08
open Chiritori Chiritori.Spec

theorem c08_wide_tail (d0 : Char) (dr : List Char) (e0 : Char) (er : List Char) (ps : List Piece) (t : List Char)
    (hw : wideOK2 (d0 :: dr) (e0 :: er) t ps [] = true) :
    c08Holds (renderAll (d0 :: dr) (e0 :: er) ps ++ t) (d0 :: dr) (e0 :: er)
      (tokenize (renderAll (d0 :: dr) (e0 :: er) ps ++ t) (d0 :: dr) (e0 :: er)) = true := by
  unfold c08Holds
  simp only [beq_iff_eq]
  have h1 := tokenize_wide_tail d0 dr e0 er ps t hw
  have h2 := textbook_wide_tail d0 dr e0 er t ps [] (renderAll (d0 :: dr) (e0 :: er) ps ++ t).length hw (by simp)
  simp only [List.nil_append] at h2
  have h3 := fwd_tnorm_tail (d0 :: dr) (e0 :: er) t ps [] [] (by simp)
  simp only [ne_eq, not_true_eq_false, ite_false, List.append_nil, List.nil_append] at h3
  unfold textbook
  rw [h2, ← h3, ← h1]
  rfl

/-- a quiet stretch of text is a fitting last stretch -/
theorem noElem_of_quietT (ds de : List Char) : ∀ (u : List Char) (st : TState), textish st = true →
    quietT ds st u = true → noElem ds de st u = true
  | [], st, ht, _ => by
    cases st <;> simp [textish] at ht <;> simp [noElem]
  | c :: cs, st, ht, hq => by
    cases st with
    | text =>
      simp only [quietT] at hq
      have hnext : (getState c ds de .text).2 = checkDelimiterStart c ds := by
        unfold getState
        rcases checkDelimiterStart_cases c ds with h | ⟨r, h⟩ <;> simp [h]
      have hti : textish (checkDelimiterStart c ds) = true := by
        rcases checkDelimiterStart_cases c ds with h | ⟨r, h⟩ <;> rw [h] <;> rfl
      simp only [noElem, hnext, bne_iff_ne, ne_eq, Bool.and_eq_true]
      exact ⟨by simp, noElem_of_quietT ds de cs _ hti hq⟩
    | dstart r =>
      cases r with
      | nil => simp [quietT] at hq
      | cons x r =>
        simp only [quietT] at hq
        simp only [noElem, getState, bne_iff_ne, ne_eq, Bool.and_eq_true]
        refine ⟨by simp, ?_⟩
        by_cases hc : c = x
        · simp only [hc, ite_true] at hq ⊢
          exact noElem_of_quietT ds de cs _ rfl hq
        · simp only [hc, ite_false] at hq ⊢
          exact noElem_of_quietT ds de cs _ rfl hq
    | inDelim => simp [textish] at ht
    | dend r => simp [textish] at ht

theorem tailFit_of_textFit (ds de u : List Char) (hds : ds ≠ []) (h : textFit ds u = true) : tailFit ds de u = true := by
  simp only [textFit, noOcc, Bool.and_eq_true, Option.isNone_iff_eq_none] at h
  simp only [tailFit, Bool.and_eq_true]
  refine ⟨noElem_of_quietT ds de u .text rfl h.1, ?_⟩
  unfold noTagTB
  rw [findSub_none_left ds hds u _ h.2]

/-- `c08_wide` is the case of an empty last stretch -/
theorem wideOK2_of_wideOK (ds de : List Char) (hds : ds ≠ []) : ∀ (ps : List Piece) (acc : List Char),
    wideOK ds de ps acc = true → wideOK2 ds de [] ps acc = true
  | [], acc, hw => by
    simp only [wideOK] at hw
    simp only [wideOK2, List.append_nil]
    exact tailFit_of_textFit ds de acc hds hw
  | .text s :: ps, acc, hw => by
    simp only [wideOK] at hw
    simp only [wideOK2]
    exact wideOK2_of_wideOK ds de hds ps _ hw
  | .tag b0 rest :: ps, acc, hw => by
    simp only [wideOK, Bool.and_eq_true] at hw
    simp only [wideOK2, Bool.and_eq_true]
    exact ⟨hw.1, wideOK2_of_wideOK ds de hds ps [] hw.2⟩

/-! ### instances -/

set_option maxRecDepth 16384 in
/-- the HTML document of `c08_wide`, cut off inside a tag, inside a start delimiter, inside an end delimiter -/
example : wideOK2 "<!-- <".toList "> -->".toList "<!-- <time-limited to='2024-01-01".toList htmlPs [] = true ∧
    wideOK2 "<!-- <".toList "> -->".toList "trailing <!--".toList htmlPs [] = true ∧
    wideOK2 "<!-- <".toList "> -->".toList "<!-- <".toList htmlPs [] = true ∧
    wideOK2 "<!-- <".toList "> -->".toList "<!-- <removal-marker name='a'> --".toList htmlPs [] = true ∧
    -- ... but a complete tag is not a last stretch
    wideOK2 "<!-- <".toList "> -->".toList "<!-- <x> -->".toList htmlPs [] = false := by decide +kernel

end Chiritori.Props.C08
