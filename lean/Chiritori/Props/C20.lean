import Chiritori.Spec.Holds
namespace Chiritori.Props.C20
end Chiritori.Props.C20
