import Chiritori.Model.Cli
/-
  C20 — The CLI is a faithful wrapper: I/O paths, config file and defaults.

  Proved of the model `Cli.run` (Model/Cli.lean).  What the theorems cannot carry and is shown only by running
  the real binary (correspondence part of the check): clap's parsing of the command line, `atty`, the file
  system and pipes, and that the binary does not consult TZ / locale once `--time-limited-current` is given.
-/
namespace Chiritori.Props.C20
open Chiritori Chiritori.Cli

/-- (i) mode dispatch: `--list` wins over `--list-all`; `--list-json` alone cleans -/
theorem dispatch (a : Args) (w : World) (content : List Char) :
    resultOf a w content =
      if a.list then list content a.delimiterStart a.delimiterEnd (configOf a w) a.listJson
      else if a.listAll then listAll content a.delimiterStart a.delimiterEnd (configOf a w) a.listJson
      else clean content a.delimiterStart a.delimiterEnd (configOf a w) := rfl

theorem list_json_alone_cleans (a : Args) (w : World) (content : List Char) (h1 : a.list = false) (h2 : a.listAll = false) :
    resultOf a w content = clean content a.delimiterStart a.delimiterEnd (configOf a w) := by
  simp [resultOf, h1, h2]

/-- the result text of a run, wherever it is written -/
def resultText (o : Outcome) (a : Args) : Option (List Char) :=
  if o.exit ≠ 0 then none
  else match a.output with
    | some p => o.files p
    | none => some o.stdout

/-- (ii) the result is the library result for the corresponding configuration, in every routing:
    input from `--filename` or stdin, output to stdout or `--output` (also when it names the input file) -/
theorem result_is_library (a : Args) (w : World) (content out : List Char)
    (hc : contentOf a w = some content) (hcfg : configMissing a w = false) (hr : resultOf a w content = .ok out) :
    resultText (run a w) a = some out := by
  unfold run resultText
  rw [hc]
  simp only [hcfg, Bool.false_eq_true, ite_false, hr]
  cases ho : a.output with
  | none => simp
  | some p => simp [writeFile]

/-- input routing does not matter: the same text through `--filename` or through stdin -/
theorem input_routing (a : Args) (w : World) (p : Path) (text : List Char) (hf : w.files p = some text) :
    contentOf { a with filename := some p } w = contentOf { a with filename := none } { w with stdin := text } := by
  simp [contentOf, hf]

/-- when `--output` names the input file the input is read before it is overwritten -/
theorem in_place (a : Args) (w : World) (p : Path) (content out : List Char)
    (hin : a.filename = some p) (hout : a.output = some p) (hf : w.files p = some content)
    (hcfg : configMissing a w = false)
    (hr : resultOf a w content = .ok out) : (run a w).files p = some out ∧ (run a w).exit = 0 := by
  unfold run contentOf
  rw [hin]
  simp only [hf, hcfg, Bool.false_eq_true, ite_false, hr, hout]
  simp [writeFile]

/-- (iii) the target set is the config-file lines chained with the flag values -/
theorem targets (a : Args) (w : World) :
    (configOf a w).targets =
      (match a.removalMarkerTargetConfig with
       | some p => (match w.files p with | some c => fileLines c | none => [])
       | none => []) ++ a.removalMarkerTargetName := rfl

/-- ... so a config file with one name per line is the same as repeating the flag per line -/
theorem config_file_equiv_flags (a : Args) (w : World) (p : Path) (c : List Char)
    (hf : w.files p = some c) (hflags : a.removalMarkerTargetName = []) :
    (configOf { a with removalMarkerTargetConfig := some p } w).targets =
      (configOf { a with removalMarkerTargetConfig := none, removalMarkerTargetName := fileLines c } w).targets := by
  simp [configOf, targetsOf, hf, hflags]

/-- (iv) option defaults contribute no targets and exactly the documented delimiters, tag names and offset -/
theorem defaults (w : World) :
    let c := configOf {} w
    c.targets = [] ∧ c.tlName = "time-limited".toList ∧ c.rmName = "removal-marker".toList ∧
    c.offset = "+00:00".toList ∧ ({} : Args).delimiterStart = "<!-- <".toList ∧ ({} : Args).delimiterEnd = "> -->".toList := by
  simp [configOf, targetsOf]

/-- with no target option no removal-marker is removed (C06's command-line clause) -/
theorem no_target_option (a : Args) (w : World) (h1 : a.removalMarkerTargetConfig = none)
    (h2 : a.removalMarkerTargetName = []) (el : Element) : markerIsRemoval (configOf a w) el = false := by
  have : (configOf a w).targets = [] := by simp [configOf, targetsOf, h1, h2]
  unfold markerIsRemoval
  cases (firstAttr el "name".toList).bind (·.value) with
  | none => rfl
  | some v => simp [this]

/-- (v) with the current time given, neither `Local::now()` nor the process environment influences the run -/
theorem environment_irrelevant (a : Args) (w : World) (t : Int × Nat) (now' : Int × Nat)
    (env' : List (List Char × List Char)) (h : a.timeLimitedCurrent = some t) :
    run a w = run a { w with now := now', env := env' } := by
  have hc : configOf a w = configOf a { w with now := now', env := env' } := by
    simp [configOf, targetsOf, h]
  simp [run, contentOf, resultOf, configMissing, hc]

/-- with `--output` nothing is printed -/
theorem output_given_stdout_empty (a : Args) (w : World) (p : List Char) (ho : a.output = some p) :
    (run a w).stdout = [] := by
  unfold run
  cases contentOf a w with
  | none => rfl
  | some content =>
    simp only
    split
    · rfl
    · cases resultOf a w content with
      | error e => rfl
      | ok out => simp [ho]

/-- (vi) a file that cannot be opened - the input or the target config file - ends the run with status 101, nothing on
    standard output and no file written (the output file is not even created) -/
theorem missing_file_fails (a : Args) (w : World)
    (h : contentOf a w = none ∨ configMissing a w = true) :
    (run a w).exit = 101 ∧ (run a w).stdout = [] ∧ (run a w).files = w.files := by
  unfold run
  rcases h with h | h
  · rw [h]; exact ⟨rfl, rfl, rfl⟩
  · cases hc : contentOf a w with
    | none => exact ⟨rfl, rfl, rfl⟩
    | some content => simp [h]

/-- `BufRead::lines` on a typical config file -/
example : fileLines "feature1\nfeature2\r\n\nlast".toList = ["feature1".toList, "feature2".toList, [], "last".toList] := by
  decide +kernel
example : fileLines "feature1\n".toList = ["feature1".toList] := by decide +kernel

end Chiritori.Props.C20
