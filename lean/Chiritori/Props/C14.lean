import Chiritori.Props.C12
import Chiritori.Lemmas.FormatMerge
import Chiritori.Lemmas.C14Default
import Chiritori.Lemmas.C14Full
import Chiritori.Lemmas.Laminar
import Chiritori.Props.C02
/-
  C14 — Whitespace changes are confined to the borders of removals.

  Full statement: `Statement` (the trimmed maximal stretches of the source outside the ready extents, cut line by
  line inside unwrapped bodies, occur verbatim and in order in the output: `Spec.c14Holds`).
  Proved (for every text and every list of removed positions):
  * `only_whitespace`: tidying deletes nothing but spaces, tabs and line breaks (`format_wsSub`);
  * `ranges_local`: every range `format` computes is either
      - a *seam range*: one contiguous run of whitespace that contains the removed position it belongs to
        (so it lies in the trailing whitespace of the stretch before the seam and the leading whitespace of the
        stretch behind it), or
      - a *block range*: part of the run of blanks at the beginning of a line behind the head seam of an
        unwrap pair, of the shape given in C12;
  * `merged_subset`: what is finally deleted is covered by those ranges.
  * `c14_default_partial`: the full statement `Spec.c14Holds` for EVERY source in which no element whose
    condition holds carries `unwrap-block` (all default-strategy removals, junk and malformed sources included).
    The proof: the stretches are the kept segments between the markers, trimmed (`stretches_eq_keptSegs`); the
    text after removal is their concatenation; the seam positions are segment ends (`positions_segEnds`); every
    deleted index lies in a whitespace run touching such an end (`seam_range_run`), so it cannot reach into a
    trimmed core, whose first and last bytes are not whitespace (`coresKept_of_anchored`); hence the cores survive
    in order (`embeds_minusFrom`) and the greedy matcher of the specification finds them (`occurInOrder_of_embeds`).
  * `c14`: the full statement for EVERY source.  Unwrapped blocks add two things to the argument above: the pieces
    are also cut behind every line break inside an unwrapped body (`piecesAux`, which is `stretchesAux` with those
    line breaks kept as pieces of their own), and a block range lies in the blanks at the beginning of a line that
    starts strictly between the two seams of a marker pair (`fmtBlockIndent_anchor`); the line break in front of it
    comes from a source position between the two markers (`keptOf_getElem?`, monotonicity of `koffTo`), which lies
    in the body of the ready unwrapped element the pair came from (`mergeMarkers_pairBody`, `collect_bodies`), so
    the line start is the end of a piece.
-/
namespace Chiritori.Props.C14
open Chiritori Chiritori.Spec

def Statement : Prop :=
  ∀ (src ds de : List Char) (cfg : Cfg) (out : List Char), ds ≠ [] → de ≠ [] →
    clean src ds de cfg = .ok out → c14Holds src ds de cfg out = true

theorem only_whitespace (s : List Char) (pos : List (Nat × Option Nat)) (out : Bytes)
    (h : format (bytesOf s) pos = .ok out) : WsSub (bytesOf s) out := (format_wsSub s pos out h).1

/-- every range of the collection loop with the position it is anchored at -/
theorem ranges_local (s : List Char) (all ps : List (Nat × Option Nat)) (rs bs : List (Nat × Nat))
    (h : formatCollect (bytesOf s) all ps = .ok (rs, bs)) :
    (∀ r ∈ rs, ∃ p ∈ ps, GoodRange s p.1 r) ∧
    (∀ r ∈ bs, ∃ p ∈ ps, ∃ q, r ∈ fmtBlockIndent (bytesOf s) p.1 q) := by
  induction ps generalizing rs bs with
  | nil =>
    simp only [formatCollect] at h
    injection h with h
    injection h with h1 h2
    subst h1; subst h2
    simp
  | cons p ps ih =>
    obtain ⟨pos, pair⟩ := p
    simp only [formatCollect] at h
    cases hfb : formatBlock (bytesOf s) pos seamFormatters (pos, pos) with
    | error e => rw [hfb] at h; simp at h
    | ok range =>
      rw [hfb] at h
      simp only at h
      obtain ⟨_, g⟩ := formatBlock_good s pos range hfb
      split at h
      · simp at h
      · rename_i blk hB
        have hblk : ∀ r ∈ blk, ∃ q, r ∈ fmtBlockIndent (bytesOf s) pos q := by
          cases pair with
          | none => simp at hB; subst hB; simp
          | some i =>
            simp only at hB
            cases hai : all[i]? with
            | none => rw [hai] at hB; simp at hB
            | some pp =>
              rw [hai] at hB
              obtain ⟨pairStart, q⟩ := pp
              simp only at hB
              split at hB
              · injection hB with hB; subst hB; intro r hr; exact ⟨pairStart, hr⟩
              · injection hB with hB; subst hB; simp
        cases hrest : formatCollect (bytesOf s) all ps with
        | error e => rw [hrest] at h; simp at h
        | ok rb =>
          rw [hrest] at h
          obtain ⟨rs', bs'⟩ := rb
          simp only at h
          injection h with h
          injection h with h1 h2
          subst h1; subst h2
          obtain ⟨i1, i2⟩ := ih rs' bs' hrest
          refine ⟨?_, ?_⟩
          · intro r hr
            rcases List.mem_cons.mp hr with hr | hr
            · subst hr; exact ⟨(pos, pair), by simp, g⟩
            · obtain ⟨p, hp, hg⟩ := i1 r hr
              exact ⟨p, by simp [hp], hg⟩
          · intro r hr
            rcases List.mem_append.mp hr with hr | hr
            · obtain ⟨q, hq⟩ := hblk r hr
              exact ⟨(pos, pair), by simp, q, hq⟩
            · obtain ⟨p, hp, hq⟩ := i2 r hr
              exact ⟨p, by simp [hp], hq⟩

/-- a seam range is one run of whitespace around its seam -/
theorem seam_range_run (s : List Char) (pos : Nat) (r : Nat × Nat) (g : GoodRange s pos r) :
    r.1 ≤ pos ∧ pos ≤ r.2 ∧ ∀ i, r.1 ≤ i → i < r.2 → ∃ x, (bytesOf s)[i]? = some x ∧ isWsByte x :=
  ⟨g.le1, g.le2, g.ws⟩

/-- a block range lies in the blanks at the beginning of a line (shape of C12) -/
theorem block_range_line (b : Bytes) (startPos endPos : Nat) (r : Nat × Nat) (h : r ∈ fmtBlockIndent b startPos endPos) :
    ∃ ls ip, findNextChar b ls = some ip ∧ ls ≤ r.1 ∧ r.2 ≤ ip := by
  obtain ⟨cur, ls, ip, _, _, _, h4, h5, _⟩ := C12.fmtBlockIndent_shape b startPos endPos r h
  refine ⟨ls, ip, h4, ?_, ?_⟩
  · rw [h5]; simp only [C12.lineRange]
    obtain ⟨_, c1, _, _, _⟩ := findNextChar_some b ls ip h4
    omega
  · rw [h5]; simp only [C12.lineRange]; omega

/-- every index finally deleted lies in one of the collected ranges -/
theorem mergeOverlappedGo_subset (xs : List Rng') : ∀ (cur : Rng') (i : Nat),
    inAny (mergeOverlappedGo cur xs) i = true → inAny (cur :: xs) i = true := by
  induction xs with
  | nil => intro cur i h; simpa [mergeOverlappedGo] using h
  | cons x xs ih =>
    intro cur i h
    simp only [mergeOverlappedGo] at h
    split at h
    · rename_i hov
      have := ih _ i h
      simp only [inAny, List.any_cons, Rng.contains, Bool.or_eq_true, Bool.and_eq_true, decide_eq_true_eq] at this ⊢
      rcases this with ⟨h1, h2⟩ | h3
      · by_cases hc : i < cur.2
        · exact Or.inl ⟨h1, hc⟩
        · exact Or.inr (Or.inl ⟨by omega, by omega⟩)
      · exact Or.inr (Or.inr h3)
    · simp only [inAny, List.any_cons, Bool.or_eq_true] at h ⊢
      rcases h with h | h
      · exact Or.inl h
      · have := ih x i (by simpa [inAny] using h)
        simp only [inAny, List.any_cons, Bool.or_eq_true] at this
        exact Or.inr this

theorem merged_subset (l : List Rng') (i : Nat) (h : inAny (mergeOverlapped l) i = true) : inAny l i = true := by
  cases l with
  | nil => simpa [mergeOverlapped] using h
  | cons r rs => exact mergeOverlappedGo_subset rs r i h

/-- C14 for every source without a ready unwrap-block: the trimmed stretches outside the ready extents occur
    verbatim and in order in the output -/
theorem c14_default_partial (src ds de : List Char) (cfg : Cfg) (out : List Char) (_ : ds ≠ []) (hde : de ≠ [])
    (hnu : NoReadyUnwrap cfg (parseSource src ds de))
    (h : clean src ds de cfg = .ok out) : c14Holds src ds de cfg out = true := by
  unfold clean at h
  simp only [bind, Except.bind, pure, Except.pure] at h
  generalize hM : buildRemoveMarker cfg (bytesOf src) (parseSource src ds de) = M at h
  cases hrm : removeMarkers (bytesOf src) M with
  | error e => rw [hrm] at h; simp at h
  | ok removed =>
    rw [hrm] at h
    simp only at h
    cases hpos : getRemovedPos M with
    | error e => rw [hpos] at h; simp at h
    | ok pos =>
      rw [hpos] at h
      simp only at h
      cases hf : format removed pos with
      | error e => rw [hf] at h; simp at h
      | ok o =>
        rw [hf] at h
        simp only at h
        injection h with h
        subst h
        -- the markers
        obtain ⟨hs, hcov⟩ := buildRemoveMarker_spec src ds de cfg hde
        rw [hM] at hs hcov
        have hnp : ∀ m ∈ M, m.pair = none := by
          rw [← hM]
          exact mergeMarkers_nopair _ [] (collect_nopairs cfg (bytesOf src) _ hnu) (by simp)
        have hrin := RIn_of_MSorted (bytesOf src) M 0 (blen src) hs (by simp)
        generalize hrs : (M.map fun m => (m.start, m.stop)) = rs at hrin
        -- the text after removal is the concatenation of the kept segments
        have hremoved : removed = (keptSegs (bytesOf src) rs 0).flatten := by
          rw [removeMarkers_eq _ _ 0 (blen src) hs removed hrm, hrs, minusRanges_eq_minusFrom]
          have := minusFrom_eq_keptSegs (bytesOf src) rs 0 hrin
          simpa using this
        -- the positions handed to `format`
        have hpos' := removedPosAux_eq M 0 0 (blen src) hs (Nat.le_refl _)
        unfold getRemovedPos at hpos
        rw [hpos'] at hpos
        injection hpos with hpos
        obtain ⟨s1, hs1⟩ := deleteAll_wellFormed src _ removed hrm
        -- the ranges `format` deletes
        unfold format at hf
        cases hfc : formatCollect removed pos pos with
        | error e => rw [hfc] at hf; simp at hf
        | ok rb =>
          obtain ⟨ranges, blocks⟩ := rb
          rw [hfc] at hf
          simp only at hf
          have hblocks : blocks = [] := by
            apply formatCollect_noblocks removed pos pos ranges blocks _ hfc
            intro p hp
            rw [← hpos] at hp
            have := (List.of_mem_zip hp).2
            obtain ⟨m, hm, hmp⟩ := List.mem_map.mp this
            rw [← hmp]; exact hnp m hm
          subst hblocks
          rw [hs1] at hfc
          obtain ⟨ok1, _⟩ := formatCollect_ok s1 pos pos ranges [] hfc
          obtain ⟨loc1, _⟩ := ranges_local s1 pos pos ranges [] hfc
          have hall : ∀ x ∈ mergeRanges ranges (sortByStart []), RangeOK s1 x := by
            intro x hx
            rcases mem_mergeRanges _ _ _ hx with hx | hx
            · exact ok1 x hx
            · simp [sortByStart] at hx
          obtain ⟨m1, m2⟩ := mergeOverlapped_spec s1 _ hall
          rw [deleteRanges_eq_deleteAll] at hf
          have hrsF := RSorted_of_OSorted s1 _ m1 m2 0 (fun _ _ => Nat.zero_le _)
          have heq := deleteAll_eq removed _ 0 hrsF o hf
          simp only [List.take_zero, List.drop_zero, List.nil_append] at heq
          obtain ⟨s2, hs2⟩ := deleteAll_wellFormed s1 _ o (by rw [← hs1]; exact hf)
          -- every deleted index is anchored at a segment end
          have hanch : Anchored (mergeOverlapped (mergeRanges ranges (sortByStart [])))
              (keptSegs (bytesOf src) rs 0).flatten (segEnds (keptSegs (bytesOf src) rs 0) 0) 0 := by
            intro d hd
            have hd2 := merged_subset _ d hd
            simp only [inAny, List.any_eq_true] at hd2
            obtain ⟨x, hx, hxd⟩ := hd2
            have hxr : x ∈ ranges := by
              rcases mem_mergeRanges _ _ _ hx with hx | hx
              · exact hx
              · simp [sortByStart] at hx
            obtain ⟨p, hp, g⟩ := loc1 x hxr
            simp only [Rng.contains, Bool.and_eq_true, decide_eq_true_eq] at hxd
            refine ⟨x.1, x.2, p.1, hxd.1, hxd.2, g.le1, g.le2, ?_, Or.inr ?_⟩
            · intro i hi1 hi2
              obtain ⟨y, hy, hyw⟩ := g.ws i hi1 hi2
              rw [← hs1, hremoved] at hy
              exact ⟨y, hy, isWs_of_isWsByte y hyw⟩
            · rw [← hpos] at hp
              have hp1 := (List.of_mem_zip hp).1
              have := positions_segEnds (bytesOf src) M 0 0 (blen src) hs (Nat.le_refl _) (by simp) p.1 hp1
              rw [hrs] at this
              exact this
          have hocc := occur_of_anchored _ _ hanch
          -- assemble
          unfold c14Holds
          dsimp only
          rw [unwrappedBodies_nil cfg _ _ hnu]
          have hstr := stretches_eq_keptSegs (bytesOf src) (readyExtents cfg (bytesOf src) (parseSource src ds de)) rs hrin (by
            intro i
            rw [← hrs, Bool.eq_iff_iff, C02.inAny_markers, hcov i]
            rfl)
          rw [hstr, hs2, charsOf_bytesOf, ← hs2, heq, hremoved]
          exact hocc

/-- C14, full statement: for every source, any non-empty delimiters and any configuration, the trimmed stretches
    of the source outside the ready extents (cut line by line inside unwrapped bodies) occur verbatim and in order
    in the output of `clean` -/
theorem c14 : Statement := by
  intro src ds de cfg out _ hde h
  unfold clean at h
  simp only [bind, Except.bind, pure, Except.pure] at h
  generalize hM : buildRemoveMarker cfg (bytesOf src) (parseSource src ds de) = M at h
  cases hrm : removeMarkers (bytesOf src) M with
  | error e => rw [hrm] at h; simp at h
  | ok removed =>
    rw [hrm] at h
    simp only at h
    cases hpos : getRemovedPos M with
    | error e => rw [hpos] at h; simp at h
    | ok pos =>
      rw [hpos] at h
      simp only at h
      cases hf : format removed pos with
      | error e => rw [hf] at h; simp at h
      | ok o =>
        rw [hf] at h
        simp only at h
        injection h with h
        subst h
        generalize hext : readyExtents cfg (bytesOf src) (parseSource src ds de) = ext
        generalize hbod : unwrappedBodies cfg (bytesOf src) (parseSource src ds de) = bodies
        -- the markers: sorted, cover the extents, pair indices valid and meaningful
        obtain ⟨hs, hcov⟩ := buildRemoveMarker_spec src ds de cfg hde
        obtain ⟨_, _, hpv⟩ := markers_facts src ds de cfg hde
        obtain ⟨hok, _⟩ := tokenize_ok src ds de hde
        have hfl : flattenParts (parseSource src ds de) = tokenize src ds de := parse_flatten ds de _
        have hspan : BSpan (flattenParts (parseSource src ds de)) 0 (blen src) := by
          have := BSpan_of_chain _ 0 0 hok.chain
          rw [hok.flatEq, Nat.zero_add] at this
          rw [hfl]; exact this
        obtain ⟨hgeo, _⟩ := collect_spec cfg (bytesOf src) (parseSource src ds de) 0 (blen src) hspan (by simp)
        have hpb : PairBody bodies M := by
          rw [← hM]
          apply mergeMarkers_pairBody _ 0 (blen src) [] bodies hgeo (by simp [PV])
            (by intro i j mi mj h1; simp at h1)
          intro x hx
          obtain ⟨e, he, hxe⟩ := collect_bodies cfg (bytesOf src) _ 0 (blen src) hspan (by simp) x hx
          rw [← hbod, unwrappedBodies_eq]
          exact List.mem_flatMap.mpr ⟨e, he, hxe⟩
        rw [hM] at hs hcov hpv
        have hcov' : ∀ i, inAny ext i = true ↔ mcov M i := by
          intro i; rw [hcov i, ← hext]; rfl
        -- the text after removal: the kept bytes = the concatenation of the pieces
        have hK : removed = (piecesAux ext bodies (bytesOf src).zipIdx []).flatten := by
          rw [removeMarkers_eq _ _ 0 (blen src) hs removed hrm, minusRanges_eq_keptOf,
            piecesAux_flatten, List.nil_append]
          apply (keptOf_congr _ _ _ _).symm
          intro i
          rw [Bool.eq_iff_iff, C02.inAny_markers, hcov' i]
        -- positions
        have hpos' := removedPosAux_eq M 0 0 (blen src) hs (Nat.le_refl _)
        unfold getRemovedPos at hpos
        rw [hpos'] at hpos
        injection hpos with hpos
        have hposk := positions_koffTo ext (bytesOf src) M 0 0 (blen src) hs (by simp)
          (fun i _ => hcov' i) (by simp [koffTo_zero])
        obtain ⟨s1, hs1⟩ := deleteAll_wellFormed src _ removed hrm
        -- the ranges `format` deletes
        unfold format at hf
        cases hfc : formatCollect removed pos pos with
        | error e => rw [hfc] at hf; simp at hf
        | ok rb =>
          obtain ⟨ranges, blocks⟩ := rb
          rw [hfc] at hf
          simp only at hf
          have hbo := blocks_origin removed pos pos ranges blocks hfc
          rw [hs1] at hfc
          obtain ⟨ok1, ok2⟩ := formatCollect_ok s1 pos pos ranges blocks hfc
          obtain ⟨loc1, _⟩ := ranges_local s1 pos pos ranges blocks hfc
          have hall : ∀ x ∈ mergeRanges ranges (sortByStart blocks), RangeOK s1 x := by
            intro x hx
            rcases mem_mergeRanges _ _ _ hx with hx | hx
            · exact ok1 x hx
            · exact ok2 x (mem_sortByStart _ _ hx)
          obtain ⟨m1, m2⟩ := mergeOverlapped_spec s1 _ hall
          rw [deleteRanges_eq_deleteAll] at hf
          have hrsF := RSorted_of_OSorted s1 _ m1 m2 0 (fun _ _ => Nat.zero_le _)
          have heq := deleteAll_eq removed _ 0 hrsF o hf
          simp only [List.take_zero, List.drop_zero, List.nil_append] at heq
          obtain ⟨s2, hs2⟩ := deleteAll_wellFormed s1 _ o (by rw [← hs1]; exact hf)
          -- a seam position is the end of a piece
          have hseam : ∀ p ∈ pos, p.1 ∈ segEnds (piecesAux ext bodies (bytesOf src).zipIdx []) 0 := by
            intro p hp
            rw [← hpos] at hp
            have hp1 := (List.of_mem_zip hp).1
            rw [hposk] at hp1
            obtain ⟨m, hm, hmp⟩ := List.mem_map.mp hp1
            obtain ⟨g1, g2, g3⟩ := MSorted_bounds M 0 (blen src) hs m hm
            have hlt : m.start < (bytesOf src).length := by simp; omega
            have hget : (bytesOf src)[m.start]? = some ((bytesOf src)[m.start]) := List.getElem?_eq_getElem hlt
            have hsplit := zipIdx_split (bytesOf src) m.start _ hget
            have := (piecesAux_ends ext bodies ((bytesOf src).zipIdx.take m.start) ((bytesOf src)[m.start]) m.start
              ((bytesOf src).zipIdx.drop (m.start + 1)) [] 0).1 ((hcov' m.start).mpr ⟨m, hm, Nat.le_refl _, g2⟩)
            rw [← hsplit] at this
            simp only [List.length_nil, Nat.add_zero, Nat.zero_add] at this
            rw [← hmp]
            exact this
          -- every deleted index is anchored at the end of a piece
          have hanch : Anchored (mergeOverlapped (mergeRanges ranges (sortByStart blocks)))
              (piecesAux ext bodies (bytesOf src).zipIdx []).flatten
              (segEnds (piecesAux ext bodies (bytesOf src).zipIdx []) 0) 0 := by
            intro d hd
            have hd2 := merged_subset _ d hd
            simp only [inAny, List.any_eq_true] at hd2
            obtain ⟨x, hx, hxd⟩ := hd2
            simp only [Rng.contains, Bool.and_eq_true, decide_eq_true_eq] at hxd
            rcases mem_mergeRanges _ _ _ hx with hx | hx
            · -- a seam range
              obtain ⟨p, hp, g⟩ := loc1 x hx
              refine ⟨x.1, x.2, p.1, hxd.1, hxd.2, g.le1, g.le2, ?_, Or.inr (hseam p hp)⟩
              intro i hi1 hi2
              obtain ⟨y, hy, hyw⟩ := g.ws i hi1 hi2
              rw [← hs1, hK] at hy
              exact ⟨y, hy, isWs_of_isWsByte y hyw⟩
            · -- a block range
              have hx' := mem_sortByStart _ _ hx
              obtain ⟨p, hp, j, q, hpj, hqj, hlt, hxb⟩ := hbo x hx'
              obtain ⟨ls, ip, a1, a2, a3, a4, a5, a6⟩ := fmtBlockIndent_anchor removed p.1 q.1 x hxb
              -- the two markers
              rw [← hpos] at hp hqj
              obtain ⟨i, hi⟩ := List.mem_iff_getElem?.mp hp
              rw [List.getElem?_zip_eq_some] at hi hqj
              obtain ⟨hi1, hi2⟩ := hi
              obtain ⟨hj1, hj2⟩ := hqj
              rw [hposk, List.getElem?_map] at hi1 hj1
              rw [List.getElem?_map] at hi2 hj2
              cases hmi : M[i]? with
              | none => rw [hmi] at hi1; simp at hi1
              | some mi =>
                cases hmj : M[j]? with
                | none => rw [hmj] at hj1; simp at hj1
                | some mj =>
                  rw [hmi] at hi1 hi2
                  rw [hmj] at hj1 hj2
                  simp only [Option.map_some, Option.some.injEq] at hi1 hi2 hj1 hj2
                  have hpair : mi.pair = some j := by rw [hi2, hpj]
                  -- the opening part stands left of the closing part
                  have hij : i < j := by
                    rcases Nat.lt_trichotomy i j with h | h | h
                    · exact h
                    · subst h
                      rw [hmi] at hmj
                      injection hmj with hmj
                      subst hmj
                      omega
                    · exfalso
                      have := MSorted_index_le M 0 (blen src) hs j i mj mi h hmj hmi
                      have b1 := MSorted_bounds M 0 (blen src) hs mj (List.mem_of_getElem? hmj)
                      have := koffTo_mono ext (bytesOf src) mj.start mi.start (by omega)
                      omega
                  obtain ⟨body, hbody, hb1, hb2⟩ := hpb i j mi mj hmi hpair hij hmj
                  have bi := MSorted_bounds M 0 (blen src) hs mi (List.mem_of_getElem? hmi)
                  have bj := MSorted_bounds M 0 (blen src) hs mj (List.mem_of_getElem? hmj)
                  -- the line break in front of the line comes from a source position inside the body
                  have hnlK : (keptOf ext (bytesOf src).zipIdx)[ls - 1]? = some (.lead '\n') := by
                    have := piecesAux_flatten ext bodies (bytesOf src).zipIdx []
                    rw [List.nil_append] at this
                    rw [← this, ← hK]; exact a3
                  obtain ⟨σ, l2, hsplit, hk, hout, hσlt⟩ := keptOf_getElem? ext (bytesOf src) (ls - 1) _ hnlK
                  have hσ1 : mi.stop ≤ σ := by
                    rcases Nat.lt_or_ge σ mi.stop with hlt' | hge
                    · exfalso
                      have hlt2 : σ < mi.start := by
                        rcases Nat.lt_or_ge σ mi.start with h | h
                        · exact h
                        · have := (hcov' σ).mpr ⟨mi, List.mem_of_getElem? hmi, h, hlt'⟩
                          rw [hout] at this; simp at this
                      have := koffTo_strict ext (bytesOf src) σ mi.start hσlt hout hlt2
                      omega
                    · exact hge
                  have hσ2 : σ < mj.start := by
                    rcases Nat.lt_or_ge σ mj.start with h | h
                    · exact h
                    · exfalso
                      have := koffTo_mono ext (bytesOf src) mj.start σ h
                      omega
                  have hinb : inAny bodies σ = true := by
                    simp only [inAny, List.any_eq_true]
                    exact ⟨body, hbody, by simp [Rng.contains]; omega⟩
                  have hend := (piecesAux_ends ext bodies ((bytesOf src).zipIdx.take σ) (.lead '\n') σ l2 [] 0).2
                    hout hinb rfl
                  rw [← hsplit] at hend
                  simp only [List.length_nil, Nat.add_zero, Nat.zero_add] at hend
                  have hkσ : koff ext ((bytesOf src).zipIdx.take σ) = ls - 1 := hk
                  rw [hkσ, show ls - 1 + 1 = ls by omega] at hend
                  -- the blanks at the beginning of that line
                  obtain ⟨_, c1, _, _, c5⟩ := findNextChar_some removed ls ip a4
                  have hbl : isBoundary (bytesOf s1) ls = true := by
                    have := nl_next_boundary s1 (ls - 1) (by rw [← hs1]; exact a3)
                    rw [show ls - 1 + 1 = ls by omega] at this
                    exact this.1
                  obtain ⟨hblank, _⟩ := skip_run_blank s1 ls ip hbl (by rw [← hs1]; exact c5)
                  refine ⟨ls, ip, ls, by omega, by omega, Nat.le_refl _, c1, ?_, Or.inr hend⟩
                  intro i' hi1' hi2'
                  obtain ⟨y, hy, hyb⟩ := hblank i' hi1' hi2'
                  rw [← hs1, hK] at hy
                  refine ⟨y, hy, ?_⟩
                  rcases hyb with rfl | rfl <;> rfl
          have hocc := occur_of_anchored _ _ hanch
          -- assemble
          unfold c14Holds
          dsimp only
          rw [hext, hbod]
          have hstr : stretches (bytesOf src) ext bodies =
              ((piecesAux ext bodies (bytesOf src).zipIdx []).map trimWs).filter ne := by
            unfold stretches
            exact (piecesAux_stretches ext bodies _ []).symm
          rw [hstr, hs2, charsOf_bytesOf, ← hs2, heq, hK]
          exact hocc

/-! Non-vacuity: a junk source with stray tags and two ready default elements, one of them inline. -/
def exCfg : Cfg := ⟨"tl".toList, "rm".toList, 1577836800, 0, "+00:00".toList, ["a".toList]⟩
def exSrc : List Char :=
  "a </rm>\n  <rm name='a'>\n  x\n  </rm>\n\n b <tl to='2000-01-01 00:00:00'> y </tl> c\n<rm name='b' unwrap-block>\n".toList
example : (elementsOf (parseSource exSrc "<".toList ">".toList)).all
    (fun e => !conditionHolds exCfg e.1 || !hasAttr e.1 "unwrap-block") = true := by decide +kernel
example : (stretches (bytesOf exSrc) (extentsOfSource exSrc "<".toList ">".toList exCfg) []).length = 3 := by
  decide +kernel

end Chiritori.Props.C14
