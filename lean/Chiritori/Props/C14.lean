import Chiritori.Spec.Holds
namespace Chiritori.Props.C14
end Chiritori.Props.C14
