import Chiritori.Props.C12
import Chiritori.Lemmas.FormatMerge
/-
  C14 — Whitespace changes are confined to the borders of removals.

  Full statement: `Statement` (the trimmed maximal stretches of the source outside the ready extents, cut line by
  line inside unwrapped bodies, occur verbatim and in order in the output: `Spec.c14Holds`).
  Proved (for every text and every list of removed positions):
  * `only_whitespace`: tidying deletes nothing but spaces, tabs and line breaks (`format_wsSub`);
  * `ranges_local`: every range `format` computes is either
      - a *seam range*: one contiguous run of whitespace that contains the removed position it belongs to
        (so it lies in the trailing whitespace of the stretch before the seam and the leading whitespace of the
        stretch behind it), or
      - a *block range*: part of the run of blanks at the beginning of a line behind the head seam of an
        unwrap pair, of the shape given in C12;
  * `merged_subset`: what is finally deleted is covered by those ranges.
  Not proved yet: the step from this characterisation to `Spec.c14Holds` (it needs the correspondence between
  positions of the text after removal and stretches of the source).
-/
namespace Chiritori.Props.C14
open Chiritori Chiritori.Spec

def Statement : Prop :=
  ∀ (src ds de : List Char) (cfg : Cfg) (out : List Char), ds ≠ [] → de ≠ [] →
    clean src ds de cfg = .ok out → c14Holds src ds de cfg out = true

theorem only_whitespace (s : List Char) (pos : List (Nat × Option Nat)) (out : Bytes)
    (h : format (bytesOf s) pos = .ok out) : WsSub (bytesOf s) out := (format_wsSub s pos out h).1

/-- every range of the collection loop with the position it is anchored at -/
theorem ranges_local (s : List Char) (all ps : List (Nat × Option Nat)) (rs bs : List (Nat × Nat))
    (h : formatCollect (bytesOf s) all ps = .ok (rs, bs)) :
    (∀ r ∈ rs, ∃ p ∈ ps, GoodRange s p.1 r) ∧
    (∀ r ∈ bs, ∃ p ∈ ps, ∃ q, r ∈ fmtBlockIndent (bytesOf s) p.1 q) := by
  induction ps generalizing rs bs with
  | nil =>
    simp only [formatCollect] at h
    injection h with h
    injection h with h1 h2
    subst h1; subst h2
    simp
  | cons p ps ih =>
    obtain ⟨pos, pair⟩ := p
    simp only [formatCollect] at h
    cases hfb : formatBlock (bytesOf s) pos seamFormatters (pos, pos) with
    | error e => rw [hfb] at h; simp at h
    | ok range =>
      rw [hfb] at h
      simp only at h
      obtain ⟨_, g⟩ := formatBlock_good s pos range hfb
      split at h
      · simp at h
      · rename_i blk hB
        have hblk : ∀ r ∈ blk, ∃ q, r ∈ fmtBlockIndent (bytesOf s) pos q := by
          cases pair with
          | none => simp at hB; subst hB; simp
          | some i =>
            simp only at hB
            cases hai : all[i]? with
            | none => rw [hai] at hB; simp at hB
            | some pp =>
              rw [hai] at hB
              obtain ⟨pairStart, q⟩ := pp
              simp only at hB
              split at hB
              · injection hB with hB; subst hB; intro r hr; exact ⟨pairStart, hr⟩
              · injection hB with hB; subst hB; simp
        cases hrest : formatCollect (bytesOf s) all ps with
        | error e => rw [hrest] at h; simp at h
        | ok rb =>
          rw [hrest] at h
          obtain ⟨rs', bs'⟩ := rb
          simp only at h
          injection h with h
          injection h with h1 h2
          subst h1; subst h2
          obtain ⟨i1, i2⟩ := ih rs' bs' hrest
          refine ⟨?_, ?_⟩
          · intro r hr
            rcases List.mem_cons.mp hr with hr | hr
            · subst hr; exact ⟨(pos, pair), by simp, g⟩
            · obtain ⟨p, hp, hg⟩ := i1 r hr
              exact ⟨p, by simp [hp], hg⟩
          · intro r hr
            rcases List.mem_append.mp hr with hr | hr
            · obtain ⟨q, hq⟩ := hblk r hr
              exact ⟨(pos, pair), by simp, q, hq⟩
            · obtain ⟨p, hp, hq⟩ := i2 r hr
              exact ⟨p, by simp [hp], hq⟩

/-- a seam range is one run of whitespace around its seam -/
theorem seam_range_run (s : List Char) (pos : Nat) (r : Nat × Nat) (g : GoodRange s pos r) :
    r.1 ≤ pos ∧ pos ≤ r.2 ∧ ∀ i, r.1 ≤ i → i < r.2 → ∃ x, (bytesOf s)[i]? = some x ∧ isWsByte x :=
  ⟨g.le1, g.le2, g.ws⟩

/-- a block range lies in the blanks at the beginning of a line (shape of C12) -/
theorem block_range_line (b : Bytes) (startPos endPos : Nat) (r : Nat × Nat) (h : r ∈ fmtBlockIndent b startPos endPos) :
    ∃ ls ip, findNextChar b ls = some ip ∧ ls ≤ r.1 ∧ r.2 ≤ ip := by
  obtain ⟨cur, ls, ip, _, _, _, h4, h5, _⟩ := C12.fmtBlockIndent_shape b startPos endPos r h
  refine ⟨ls, ip, h4, ?_, ?_⟩
  · rw [h5]; simp only [C12.lineRange]
    obtain ⟨_, c1, _, _, _⟩ := findNextChar_some b ls ip h4
    omega
  · rw [h5]; simp only [C12.lineRange]; omega

/-- every index finally deleted lies in one of the collected ranges -/
theorem mergeOverlappedGo_subset (xs : List Rng') : ∀ (cur : Rng') (i : Nat),
    inAny (mergeOverlappedGo cur xs) i = true → inAny (cur :: xs) i = true := by
  induction xs with
  | nil => intro cur i h; simpa [mergeOverlappedGo] using h
  | cons x xs ih =>
    intro cur i h
    simp only [mergeOverlappedGo] at h
    split at h
    · rename_i hov
      have := ih _ i h
      simp only [inAny, List.any_cons, Rng.contains, Bool.or_eq_true, Bool.and_eq_true, decide_eq_true_eq] at this ⊢
      rcases this with ⟨h1, h2⟩ | h3
      · by_cases hc : i < cur.2
        · exact Or.inl ⟨h1, hc⟩
        · exact Or.inr (Or.inl ⟨by omega, by omega⟩)
      · exact Or.inr (Or.inr h3)
    · simp only [inAny, List.any_cons, Bool.or_eq_true] at h ⊢
      rcases h with h | h
      · exact Or.inl h
      · have := ih x i (by simpa [inAny] using h)
        simp only [inAny, List.any_cons, Bool.or_eq_true] at this
        exact Or.inr this

theorem merged_subset (l : List Rng') (i : Nat) (h : inAny (mergeOverlapped l) i = true) : inAny l i = true := by
  cases l with
  | nil => simpa [mergeOverlapped] using h
  | cons r rs => exact mergeOverlappedGo_subset rs r i h

end Chiritori.Props.C14
