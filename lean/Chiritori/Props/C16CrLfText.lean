import Chiritori.Props.C16LinesCR
/-
  The premises of `item_shows_source_lines_cr`, discharged for CR LF texts: if every carriage return of the text is
  directly followed by a line break (`CrThenNl s`: a clean CR LF file, or an LF file, or a mixture of both kinds of line
  end) and the region does not begin with a line break, then the highlighted span of a region (that does not end at byte 1 of the file) satisfies `CrThenNl`
  and the text in front of it on its line does not end with a carriage return (`cr_premises`).
-/
namespace Chiritori.Props.C16
open Chiritori Chiritori.Spec

/-- the same on bytes -/
def CrNlBytes : Bytes → Prop
  | [] => True
  | x :: rest => (x = .lead '\r' → ∃ t, rest = NL :: t) ∧ CrNlBytes rest

/-- ... allowing a carriage return as the very last byte -/
def CrNlBytesW : Bytes → Prop
  | [] => True
  | x :: rest => (x = .lead '\r' → rest = [] ∨ ∃ t, rest = NL :: t) ∧ CrNlBytesW rest

theorem crNlBytes_conts (n : Nat) (rest : Bytes) (h : CrNlBytes rest) : CrNlBytes (List.replicate n .cont ++ rest) := by
  induction n with
  | zero => simpa using h
  | succ k ih =>
    simp only [List.replicate_succ, List.cons_append]
    simp only [CrNlBytes]
    exact ⟨(by intro hc; cases hc), ih⟩

theorem crNlBytes_of_chars : ∀ (s : List Char), CrThenNl s → CrNlBytes (bytesOf s)
  | [], _ => trivial
  | c :: cs, h => by
    have ih := crNlBytes_of_chars cs h.2
    simp only [bytesOf, charBytes, List.cons_append]
    refine ⟨?_, crNlBytes_conts _ _ ih⟩
    intro hc
    injection hc with hc
    subst hc
    obtain ⟨t, rfl⟩ := h.1 rfl
    have hsz : ('\r' : Char).utf8Size - 1 = 0 := by decide
    have hsz2 : ('\n' : Char).utf8Size - 1 = 0 := by decide
    refine ⟨bytesOf t, ?_⟩
    simp [hsz, bytesOf, charBytes, hsz2, NL]

theorem crNlBytes_right : ∀ (X Y : Bytes), CrNlBytes (X ++ Y) → CrNlBytes Y
  | [], _, h => h
  | _ :: xs, Y, h => crNlBytes_right xs Y h.2

theorem crNlBytesW_left : ∀ (X Y : Bytes), CrNlBytes (X ++ Y) → CrNlBytesW X
  | [], _, _ => trivial
  | x :: xs, Y, h => by
    refine ⟨?_, crNlBytesW_left xs Y h.2⟩
    intro hx
    obtain ⟨t, ht⟩ := h.1 hx
    cases xs with
    | nil => exact Or.inl rfl
    | cons y ys =>
      right
      have h1 : y = NL := by
        have := congrArg List.head? ht
        simpa using this
      exact ⟨ys, by rw [h1]⟩

theorem crNlBytesW_right : ∀ (X Y : Bytes), CrNlBytesW (X ++ Y) → CrNlBytesW Y
  | [], _, h => h
  | _ :: xs, Y, h => crNlBytesW_right xs Y h.2

theorem crNlBytes_of_W : ∀ (X : Bytes), CrNlBytesW X → X.getLast? ≠ some (.lead '\r') → CrNlBytes X
  | [], _, _ => trivial
  | x :: rest, h, hl => by
    refine ⟨?_, crNlBytes_of_W rest h.2 (by
      cases rest with
      | nil => simp
      | cons y ys => simpa [List.getLast?_cons_cons] using hl)⟩
    intro hx
    rcases h.1 hx with h1 | h1
    · subst h1; subst hx
      exact absurd rfl hl
    · exact h1

theorem crThenNl_charsOf : ∀ (X : Bytes), CrNlBytes X → CrThenNl (charsOf X)
  | [], _ => trivial
  | .cont :: rest, h => by
    simp only [charsOf]
    exact crThenNl_charsOf rest h.2
  | .lead c :: rest, h => by
    simp only [charsOf]
    refine ⟨?_, crThenNl_charsOf rest h.2⟩
    intro hc
    subst hc
    obtain ⟨t, rfl⟩ := h.1 rfl
    exact ⟨charsOf t, rfl⟩

/-- a text whose bytes satisfy the weak form and whose characters end with a carriage return ends with that byte -/
theorem last_cr_byte : ∀ (X : Bytes), CrNlBytesW X → (charsOf X).getLast? = some '\r' → X.getLast? = some (.lead '\r')
  | [], _, h => by simp [charsOf] at h
  | x :: rest, hw, h => by
    cases rest with
    | nil =>
      cases x with
      | cont => simp [charsOf] at h
      | lead c =>
        simp only [charsOf, List.getLast?_singleton, Option.some.injEq] at h
        subst h; rfl
    | cons y ys =>
      rw [List.getLast?_cons_cons]
      apply last_cr_byte (y :: ys) hw.2
      cases x with
      | cont => simpa [charsOf] using h
      | lead c =>
        simp only [charsOf] at h
        cases hr : charsOf (y :: ys) with
        | nil =>
          -- then `c` is the last character: a carriage return followed by bytes none of which is a line break
          rw [hr] at h
          simp only [List.getLast?_singleton, Option.some.injEq] at h
          subst h
          rcases hw.1 rfl with h1 | ⟨t, h1⟩
          · cases h1
          · rw [h1] at hr
            simp [charsOf] at hr
        | cons d ds =>
          rw [hr] at h
          rw [List.getLast?_cons_cons] at h
          exact h

/-- no line break between a position and the end of its line -/
theorem lineEndOf_min (b : Bytes) (pos : Nat) (hpos : 0 < pos) :
    ∀ i, pos ≤ i → i < lineEndOf b pos → b[i]? ≠ some NL := by
  unfold lineEndOf
  cases hf : findNextLB b pos false with
  | none => intro i hi _; exact findNextLB_none_false b pos hpos hf i hi
  | some v =>
    simp only
    obtain ⟨_, _, _, _, g5, _⟩ := findNextLB_some _ _ _ _ hf
    exact g5

/-- the premises of `item_shows_source_lines_cr` for a text in which every carriage return is followed by a line break -/
theorem cr_premises (s : List Char) (start stop : Nat) (lr : Option (Nat × Nat))
    (h2 : BPos (bytesOf s) stop) (hlt : start < stop) (hstop : 1 < stop) (h0 : (bytesOf s)[0]? ≠ some NL)
    (hs : CrThenNl s) (hstart : (bytesOf s)[start]? ≠ some NL) :
    CrThenNl (charsOf (geomOf (bytesOf s) start stop lr).mid) ∧
    (charsOf (geomOf (bytesOf s) start stop lr).pre).getLast? ≠ some '\r' := by
  have hb := crNlBytes_of_chars s hs
  generalize hbb : bytesOf s = b at *
  have hstople : stop ≤ b.length := h2.2
  obtain ⟨c1, c2, c3⟩ := lineEndOf_spec b (stop - 1) (by omega)
  generalize hle : lineEndOf b (stop - 1) = le at c1 c2 c3
  obtain ⟨a1, _, _⟩ := lineStartOf_spec b start (by omega) h0
  generalize hls : lineStartOf b start = ls at a1
  -- a carriage return is followed by a line break
  have hnext : ∀ k, b[k]? = some (.lead '\r') → b[k + 1]? = some NL := by
    intro k hk
    have hklt := lt_of_getElem?_some _ _ _ hk
    have e : b = b.take k ++ b.drop k := (List.take_append_drop k b).symm
    have hr := crNlBytes_right (b.take k) (b.drop k) (by rw [← e]; exact hb)
    rw [List.drop_eq_getElem_cons hklt] at hr
    rw [List.getElem?_eq_getElem hklt] at hk
    injection hk with hk
    obtain ⟨t, ht⟩ := hr.1 hk
    have : (b.drop (k + 1))[0]? = some NL := by rw [ht]; rfl
    simpa [List.getElem?_drop] using this
  -- slices satisfy the weak form
  have hslice : ∀ i j, CrNlBytesW ((b.take j).drop i) := by
    intro i j
    have e : b = b.take j ++ b.drop j := (List.take_append_drop j b).symm
    have hw := crNlBytesW_left (b.take j) (b.drop j) (by rw [← e]; exact hb)
    have e2 : b.take j = (b.take j).take i ++ (b.take j).drop i := (List.take_append_drop i _).symm
    rw [e2] at hw
    exact crNlBytesW_right _ _ hw
  constructor
  · -- the highlighted span
    simp only [geomOf, hle]
    generalize hce : colorEndOf b start stop le = ce
    apply crThenNl_charsOf
    apply crNlBytes_of_W _ (hslice start ce)
    intro hlast
    -- the span would end with a carriage return at `ce - 1`
    have hne : (b.take ce).drop start ≠ [] := by intro e; rw [e] at hlast; simp at hlast
    have hlen : ((b.take ce).drop start).length = min ce b.length - start := by simp
    have hpos : 0 < min ce b.length - start := by
      rw [← hlen]; exact List.length_pos_iff.mpr hne
    have hcr : b[min ce b.length - 1]? = some (.lead '\r') := by
      rw [List.getLast?_eq_getElem?, hlen, List.getElem?_drop, List.getElem?_take] at hlast
      rw [if_pos (by omega)] at hlast
      rw [show start + (min ce b.length - start - 1) = min ce b.length - 1 by omega] at hlast
      exact hlast
    have hnl := hnext _ hcr
    rw [show min ce b.length - 1 + 1 = min ce b.length by omega] at hnl
    unfold colorEndOf at hce
    simp only at hce
    split at hce
    · -- shortened: `ce + 1` is the end of the line, and `b[ce] = CR`; then `b[ce - 1] = CR` is followed by a CR
      rename_i hc
      obtain ⟨k1, k2, k3⟩ := hc
      have hk3lt := lt_of_getElem?_some _ _ _ k3
      have hcelt : ce < b.length := by omega
      rw [Nat.min_eq_left (by omega)] at hcr hnl
      rw [← hce] at hnl
      rw [show min stop le - 1 = min stop le - 1 from rfl, k3] at hnl
      cases hnl
    · rename_i hc
      have hcele : ce ≤ b.length := by omega
      rw [Nat.min_eq_left hcele] at hcr hnl hpos
      -- not shortened: then `ce = stop < le`, but the line break behind the carriage return ends the line
      have hsc : start < ce := by omega
      have hcelt : ce ≠ le := by
        intro e
        apply hc
        refine ⟨by rw [hce, e], by rw [hce]; exact hsc, by rw [hce]; exact hcr⟩
      have hces : ce = stop := by omega
      have hmin := lineEndOf_min b (stop - 1) (by omega) stop (by omega) (by rw [hle]; omega)
      rw [hces] at hnl
      exact hmin hnl
  · -- the text in front of the region on its line
    simp only [geomOf, hls]
    intro hlast
    have hl := last_cr_byte _ (hslice ls start) hlast
    have hne : (b.take start).drop ls ≠ [] := by intro e; rw [e] at hl; simp at hl
    have hlen : ((b.take start).drop ls).length = min start b.length - ls := by simp
    have hpos : 0 < min start b.length - ls := by
      rw [← hlen]; exact List.length_pos_iff.mpr hne
    have hcr : b[start - 1]? = some (.lead '\r') := by
      rw [List.getLast?_eq_getElem?, hlen, List.getElem?_drop, List.getElem?_take] at hl
      rw [if_pos (by omega)] at hl
      rw [Nat.min_eq_left (by omega)] at hl hpos
      rw [show ls + (start - ls - 1) = start - 1 by omega] at hl
      exact hl
    have := hnext _ hcr
    rw [show start - 1 + 1 = start by omega] at this
    exact hstart this

/-- C16, first clause, for CR LF texts, with the premises in terms of the text: every carriage return of the text is
    directly followed by a line break, the text does not begin with a line break (D8), the region does not begin with
    one and does not end at byte 1, its highlighted span does not end with one: the plain item shows the start marker
    line, the source lines `first .. last` without their carriage returns, numbered, and the end marker line -/
theorem item_shows_source_lines_crlf (s : List Char) (start stop : Nat) (isRemoval : Bool)
    (h1 : BPos (bytesOf s) start) (h2 : BPos (bytesOf s) stop) (hlt : start < stop) (hstop : 1 < stop)
    (hs : CrThenNl s) (h0 : (bytesOf s)[0]? ≠ some NL) (hstart : (bytesOf s)[start]? ≠ some NL)
    (a z : Nat) (ha : a = 1 + ((lineBreaks (bytesOf s)).filter fun p => decide (p < start)).length)
    (hz : z = 1 + ((lineBreaks (bytesOf s)).filter fun p => decide (p < stop - 1)).length)
    (hmid : (charsOf (geomOf (bytesOf s) start stop (some (a, z))).mid).getLast? ≠ some '\n') :
    ((((srcLines s).drop (a - 1)).take (z + 1 - a)).map stripCR).length = z + 1 - a ∧
    buildItem (bytesOf s) start stop isRemoval false (some (a, z)) = .ok (
      List.replicate (4 * (geomOf (bytesOf s) start stop (some (a, z))).startTabs
        + (geomOf (bytesOf s) start stop (some (a, z))).startPad) ' ' ++ strMarkerStart ++ ['\n']
      ++ replaceTabs ((((((srcLines s).drop (a - 1)).take (z + 1 - a)).map stripCR).zipIdx a).flatMap
          fun (l, i) => lineColumn i ++ l ++ ['\n'])
      ++ List.replicate (4 * (geomOf (bytesOf s) start stop (some (a, z))).endTabs
        + (geomOf (bytesOf s) start stop (some (a, z))).endPad) ' ' ++ strMarkerEnd) := by
  obtain ⟨p1, p2⟩ := cr_premises s start stop (some (a, z)) h2 hlt hstop h0 hs hstart
  exact item_shows_source_lines_cr s start stop isRemoval h1 h2 hlt h0 a z ha hz hmid p1 p2

/-! instance: the CR LF text of `item_shows_source_lines_cr` is such a text -/
example : crThenNlB "a\r\n\tb <x>\r\ny</x> c\r\nd\r\n".toList = true := by decide

end Chiritori.Props.C16
