import Chiritori.Props.C18End
import Chiritori.Lemmas.PiecesExact
import Chiritori.Lemmas.CtxAgree
import Chiritori.Lemmas.SeamIdx
/-
  C18, exactly, for documents without `unwrap-block`: the same piece list rendered under two delimiter pairs is
  cleaned to one and the same piece list, rendered under the respective pair (`respell_exact`) - not only the tags
  and the non-whitespace text (`respell_default`) but every byte of whitespace.

  How: the text after removal is the concatenation of the surviving tokens (`prune_tokens`, `minusFrom_tokens`); the
  seams lie behind the same number of surviving tokens in both texts (`seam_parts`, `seamIdx_x`); the range each
  seam formatter deletes is a function of the bytes around the seam (`formatBlock_rel`) and depends on them only
  up to the first character that is not whitespace (`relHull_agree`), where the two texts agree (`ctx_agree`: the
  same texts, and tags that begin and end with a character that is not whitespace); the end points of the ranges
  therefore correspond under the order-preserving correspondence of positions (`rho_left`, `rho_right`, `rho_mono`);
  `merge_overlapped_ranges` only compares end points (`mergeOverlapped_rel`), so the merged ranges correspond and cover
  corresponding bytes of every text token (`inAny_rel`); hence the same bytes are deleted from the same texts.
-/
namespace Chiritori.Props.C18
open Chiritori Chiritori.Spec Chiritori.Props.C19

/-! ### the formatting pass without pairs, explicitly -/

def HullsOf (K : Bytes) : List Nat → List Rng' → Prop
  | [], [] => True
  | p :: ps, r :: rs => formatBlock K p seamFormatters (p, p) = .ok r ∧ HullsOf K ps rs
  | [], _ :: _ => False
  | _ :: _, [] => False

theorem formatCollect_hulls (b : Bytes) (all : List (Nat × Option Nat)) : ∀ (ps : List (Nat × Option Nat))
    (rs bs : List Rng'), (∀ p ∈ ps, p.2 = none) → formatCollect b all ps = .ok (rs, bs) →
    HullsOf b (ps.map (·.1)) rs
  | [], rs, bs, _, h => by
    simp only [formatCollect] at h
    injection h with h
    injection h with h1 _
    subst h1; trivial
  | (pos, pair) :: rest, rs, bs, hp, h => by
    have hpair : pair = none := hp (pos, pair) (by simp)
    subst hpair
    simp only [formatCollect] at h
    cases h1 : formatBlock b pos seamFormatters (pos, pos) with
    | error e => rw [h1] at h; simp at h
    | ok range =>
      rw [h1] at h
      simp only at h
      cases h2 : formatCollect b all rest with
      | error e => rw [h2] at h; simp at h
      | ok rb =>
        obtain ⟨rs', bs'⟩ := rb
        rw [h2] at h
        simp only at h
        injection h with h
        injection h with e1 _
        subst e1
        exact ⟨h1, formatCollect_hulls b all rest rs' bs' (fun p hp' => hp p (by simp [hp'])) h2⟩

theorem format_explicit (s1 : List Char) (pos : List (Nat × Option Nat)) (o : Bytes)
    (hnp : ∀ p ∈ pos, p.2 = none) (hf : format (bytesOf s1) pos = .ok o) :
    ∃ ranges, HullsOf (bytesOf s1) (pos.map (·.1)) ranges ∧ o = minusFrom (bytesOf s1) 0 (mergeOverlapped ranges) := by
  unfold format at hf
  cases hfc : formatCollect (bytesOf s1) pos pos with
  | error e => rw [hfc] at hf; simp at hf
  | ok rb =>
    obtain ⟨ranges, blocks⟩ := rb
    rw [hfc] at hf
    simp only at hf
    have hblocks : blocks = [] := formatCollect_noblocks _ pos pos ranges blocks hnp hfc
    subst hblocks
    obtain ⟨ok1, _⟩ := formatCollect_ok s1 pos pos ranges [] hfc
    rw [mergeRanges_nil] at hf
    obtain ⟨m1, m2⟩ := mergeOverlapped_spec s1 _ ok1
    rw [deleteRanges_eq_deleteAll] at hf
    have hrsF := RSorted_of_OSorted s1 _ m1 m2 0 (fun _ _ => Nat.zero_le _)
    have heq := deleteAll_eq (bytesOf s1) _ 0 hrsF o hf
    simp only [List.take_zero, List.drop_zero, List.nil_append] at heq
    exact ⟨ranges, formatCollect_hulls _ pos pos ranges [] hnp hfc, heq⟩

/-! ### bounds of the relative hull -/

theorem relHull_le (l r : Bytes) (kl kr : Nat) (h : relHull l r = .ok (kl, kr)) : kl ≤ l.length := by
  unfold relHull at h
  cases he : relEmpty l r with
  | error e => rw [he] at h; simp at h
  | ok ke =>
    rw [he] at h
    simp only [Except.ok.injEq, Prod.mk.injEq] at h
    obtain ⟨h1, _⟩ := h
    rw [← h1]
    have a1 : relIndent l r ≤ l.length := by
      unfold relIndent
      split
      · cases hk : indentRel l with
        | none => simp
        | some k => have := indentRel_le l k hk; simp; omega
      · omega
    have a2 : relPrev l ≤ l.length := by
      unfold relPrev prev2Rel
      cases hk : prevRel l with
      | none => simp
      | some k =>
        simp only [Option.bind_some]
        cases hk2 : prevRel (l.drop (k + 1)) with
        | none => simp
        | some k2 =>
          obtain ⟨g1, _⟩ := prevRel_lt _ k hk
          obtain ⟨g2, _⟩ := prevRel_lt _ k2 hk2
          simp only [List.length_drop] at g2
          simp; omega
    omega

/-! ### corresponding hulls -/

/-- what the two token lists must have in common -/
structure TokFacts (L L' : List Token) : Prop where
  pairs : TokPairs L L'
  same : SameTexts L L'
  ne : NonEmptyToks L
  ne' : NonEmptyToks L'
  edges : TagEdges L
  kinds : KindsBin L

theorem hulls_rel (L L' : List Token) (hf : TokFacts L L') (s1 s1' : List Char)
    (hK : bytesOf s1 = toksBytes L) (hK' : bytesOf s1' = toksBytes L') :
    ∀ (idx : List Nat) (ranges ranges' : List Rng'), (∀ k ∈ idx, k ≤ L.length) →
    HullsOf (bytesOf s1) (idx.map (bnd L)) ranges → HullsOf (bytesOf s1') (idx.map (bnd L')) ranges' →
    RelRs (Rho L L') ranges ranges'
  | [], [], [], _, _, _ => trivial
  | [], [], _ :: _, _, _, h => absurd h (by simp [HullsOf])
  | [], _ :: _, _, _, h, _ => absurd h (by simp [HullsOf])
  | _ :: _, [], _, _, h, _ => absurd h (by simp [HullsOf])
  | _ :: _, _ :: _, [], _, _, h => absurd h (by simp [HullsOf])
  | k :: idx, r :: ranges, r' :: ranges', hk, h, h' => by
    simp only [List.map_cons, HullsOf] at h h'
    obtain ⟨h1, hrest⟩ := h
    obtain ⟨h1', hrest'⟩ := h'
    refine ⟨?_, hulls_rel L L' hf s1 s1' hK hK' idx ranges ranges' (fun x hx => hk x (by simp [hx])) hrest hrest'⟩
    have hkl := hk k (by simp)
    have hlen : (bytesOf s1).length = bnd L L.length := by
      rw [hK, ← toksBytes_length_take L L.length, List.take_length]
    have hlen' : (bytesOf s1').length = bnd L' L'.length := by
      rw [hK', ← toksBytes_length_take L' L'.length, List.take_length]
    have hp : bnd L k ≤ (bytesOf s1).length := by rw [hlen]; exact bnd_mono L k _ hkl
    have hp' : bnd L' k ≤ (bytesOf s1').length := by
      rw [hlen']; exact bnd_mono L' k _ (by rw [← hf.same.1]; exact hkl)
    -- both hulls as functions of the contexts, which agree
    obtain ⟨_, good⟩ := formatBlock_good s1 _ r h1
    rw [formatBlock_rel _ _ hp] at h1
    rw [formatBlock_rel _ _ hp'] at h1'
    obtain ⟨cl, cr⟩ := ctx_agree L L' hf.pairs k
    rw [hK] at h1
    rw [hK'] at h1'
    rw [relHull_agree _ _ _ _ cl cr] at h1
    cases hh : relHull (ctxL (toksBytes L') (bnd L' k)) (ctxR (toksBytes L') (bnd L' k)) with
    | error e => rw [hh] at h1; simp [Except.map] at h1
    | ok kk =>
      obtain ⟨kl, kr⟩ := kk
      rw [hh] at h1 h1'
      simp only [Except.map, Except.ok.injEq] at h1 h1'
      have hkl' : kl ≤ bnd L' k := by
        have := relHull_le _ _ kl kr hh
        rw [show (ctxL (toksBytes L') (bnd L' k)).length = bnd L' k from ctxL_length _ _ (by rw [← hK']; exact hp')] at this
        exact this
      have hklL : kl ≤ bnd L k := by
        have e := relHull_agree _ _ _ _ cl cr
        rw [hh] at e
        have := relHull_le _ _ kl kr e
        rw [show (ctxL (toksBytes L) (bnd L k)).length = bnd L k from ctxL_length _ _ (by rw [← hK]; exact hp)] at this
        exact this
      rw [← h1, ← h1']
      -- the bytes of the range are whitespace
      have hws : ∀ i, bnd L k - kl ≤ i → i < bnd L k + kr → ∃ y, (toksBytes L)[i]? = some y ∧ isWs y = true := by
        intro i hi1 hi2
        have := good.ws i (by rw [← h1]; exact hi1) (by rw [← h1]; exact hi2)
        obtain ⟨y, hy, hyw⟩ := this
        rw [hK] at hy
        exact ⟨y, hy, isWs_of_isWsByte y hyw⟩
      have hr2 : bnd L k + kr ≤ bnd L L.length := by
        have := good.len
        rw [← h1] at this
        rw [← hlen, length_bytesOf]; exact this
      refine ⟨?_, ?_⟩
      · exact (rho_left L L' hf.ne hf.same hf.edges hf.kinds k kl hkl hklL
          (fun i hi1 hi2 => hws i hi1 (by omega))).1
      · exact rho_right L L' hf.ne hf.same hf.edges hf.kinds (L.length - k) k kr rfl hkl hr2
          (fun i hi1 hi2 => hws i (by omega) hi2)

/-! ### the same deletions, token by token -/

theorem minusFrom_congr2 (F F' : List Rng) : ∀ (x : Bytes) (off off' : Nat),
    (∀ j, j < x.length → inAny F (off + j) = inAny F' (off' + j)) → minusFrom x off F = minusFrom x off' F'
  | [], _, _, _ => rfl
  | a :: rest, off, off', h => by
    rw [minusFrom_cons1, minusFrom_cons1]
    have h0 := h 0 (by simp)
    simp only [Nat.add_zero] at h0
    rw [h0, minusFrom_congr2 F F' rest (off + 1) (off' + 1) (fun j hj => by
      have := h (j + 1) (by simp; omega)
      rw [show off + (j + 1) = off + 1 + j by omega, show off' + (j + 1) = off' + 1 + j by omega] at this
      exact this)]

theorem bytesOf_inj (a b : List Char) (h : bytesOf a = bytesOf b) : a = b := by
  have := congrArg charsOf h
  rwa [charsOf_bytesOf, charsOf_bytesOf] at this

theorem pexact_eq (ds de ds' de' : List Char) (L L' : List Token) (hf : TokFacts L L')
    (hx : TokXs ds de ds' de' (fun _ _ => True) L L') (F F' : List Rng) (hF : RelRs (Rho L L') F F') :
    ∀ (n m : Nat) (qs qs' : List Piece), L.length - m = n → m ≤ L.length →
    PExact ds de F qs (L.drop m) (bnd L m) → PExact ds' de' F' qs' (L'.drop m) (bnd L' m) → qs = qs'
  | 0, m, qs, qs', hn, hm, h1, h2 => by
    have e : L.drop m = [] := List.drop_of_length_le (by omega)
    have e' : L'.drop m = [] := List.drop_of_length_le (by rw [← hf.same.1]; omega)
    rw [e] at h1; rw [e'] at h2
    cases qs with
    | nil =>
      cases qs' with
      | nil => rfl
      | cons q _ => cases q <;> simp [PExact] at h2
    | cons q _ => cases q <;> simp [PExact] at h1
  | n + 1, m, qs, qs', hn, hm, h1, h2 => by
    have hlt : m < L.length := by omega
    have hlt' : m < L'.length := by rw [← hf.same.1]; exact hlt
    have e : L.drop m = L[m] :: L.drop (m + 1) := List.drop_eq_getElem_cons hlt
    have e' : L'.drop m = L'[m] :: L'.drop (m + 1) := List.drop_eq_getElem_cons hlt'
    have ht : L[m]? = some L[m] := List.getElem?_eq_getElem hlt
    have hu : L'[m]? = some L'[m] := List.getElem?_eq_getElem hlt'
    rw [e] at h1; rw [e'] at h2
    have hb := bnd_succ L m _ ht
    have hb' := bnd_succ L' m _ hu
    -- the two tokens correspond
    have hxm : TokX0 ds de ds' de' L[m] L'[m] := by
      have : ∀ (A B : List Token) (i : Nat) (hA : i < A.length) (hB : i < B.length),
          TokXs ds de ds' de' (fun _ _ => True) A B → TokX0 ds de ds' de' A[i] B[i] := by
        intro A
        induction A with
        | nil => intro B i hA; simp at hA
        | cons a as ih =>
          intro B i hA hB hAB
          cases B with
          | nil => simp at hB
          | cons b bs =>
            simp only [TokXs] at hAB
            cases i with
            | zero => exact hAB.1.1
            | succ j => exact ih bs j (by simpa using hA) (by simpa using hB) hAB.2
      exact this L L' m hlt hlt' hx
    have hm1 : RelRs (Rho L L') F F' := hF
    have hmono := rho_mono L L' hf.ne hf.ne' hf.same
    cases qs with
    | nil => simp [PExact] at h1
    | cons q qs1 =>
      cases qs' with
      | nil => simp [PExact] at h2
      | cons q' qs1' =>
        cases q with
        | text v =>
          obtain ⟨k1, v1, r1⟩ := h1
          cases q' with
          | tag b0' rest' =>
            obtain ⟨k2, _, _⟩ := h2
            rw [hxm.1, k2] at k1; cases k1
          | text v' =>
            obtain ⟨k2, v2, r2⟩ := h2
            have hval : L[m].value = L'[m].value := by
              rcases hxm.2 with ⟨_, hv⟩ | ⟨hke, _⟩
              · exact hv
              · rw [k1] at hke; cases hke
            have hvv : v = v' := by
              apply bytesOf_inj
              rw [v1, v2, ← hval]
              apply minusFrom_congr2
              intro j hj
              rw [length_bytesOf] at hj
              exact inAny_rel (Rho L L') hmono F F' hF _ _ ⟨m, j, by omega, rfl, rfl, Or.inr ⟨_, ht, k1, by omega⟩⟩
            rw [length_bytesOf, ← hb] at r1
            rw [length_bytesOf, ← hb'] at r2
            rw [hvv, pexact_eq ds de ds' de' L L' hf hx F F' hF n (m + 1) qs1 qs1' (by omega) (by omega) r1 r2]
        | tag b0 rest =>
          obtain ⟨k1, v1, r1⟩ := h1
          cases q' with
          | text v' =>
            obtain ⟨k2, _, _⟩ := h2
            rw [hxm.1, k2] at k1; cases k1
          | tag b0' rest' =>
            obtain ⟨k2, v2, r2⟩ := h2
            rcases hxm.2 with ⟨hkt, _⟩ | ⟨_, body, _, hv, hv', _, _⟩
            · rw [k1] at hkt; cases hkt
            · have e1 : body = b0 :: rest := by
                rw [v1, List.append_assoc] at hv
                have := List.append_cancel_left hv
                exact (List.append_cancel_right this).symm
              have e2 : body = b0' :: rest' := by
                rw [v2, List.append_assoc] at hv'
                have := List.append_cancel_left hv'
                exact (List.append_cancel_right this).symm
              rw [e1] at e2
              injection e2 with e3 e4
              rw [length_bytesOf, ← hb] at r1
              rw [length_bytesOf, ← hb'] at r2
              rw [e3, e4, pexact_eq ds de ds' de' L L' hf hx F F' hF n (m + 1) qs1 qs1' (by omega) (by omega) r1 r2]

/-! ### one cleaning, with everything the comparison needs -/

theorem format_explicit' (s1 : List Char) (pos : List (Nat × Option Nat)) (o : Bytes)
    (hnp : ∀ p ∈ pos, p.2 = none) (hf : format (bytesOf s1) pos = .ok o) (bnds : List Nat)
    (hb : ∀ p ∈ pos, p.1 = 0 ∨ p.1 ∈ bnds) :
    ∃ ranges, HullsOf (bytesOf s1) (pos.map (·.1)) ranges ∧ o = minusFrom (bytesOf s1) 0 (mergeOverlapped ranges) ∧
      Anchored (mergeOverlapped ranges) (bytesOf s1) bnds 0 ∧
      ∀ d, inAny (mergeOverlapped ranges) d = true → ∃ y, (bytesOf s1)[d]? = some y ∧ isWs y = true := by
  have hf0 := hf
  unfold format at hf
  cases hfc : formatCollect (bytesOf s1) pos pos with
  | error e => rw [hfc] at hf; simp at hf
  | ok rb =>
    obtain ⟨ranges, blocks⟩ := rb
    rw [hfc] at hf
    simp only at hf
    have hblocks : blocks = [] := formatCollect_noblocks _ pos pos ranges blocks hnp hfc
    subst hblocks
    obtain ⟨ok1, _⟩ := formatCollect_ok s1 pos pos ranges [] hfc
    obtain ⟨loc1, _⟩ := C14.ranges_local s1 pos pos ranges [] hfc
    rw [mergeRanges_nil] at hf
    obtain ⟨m1, m2⟩ := mergeOverlapped_spec s1 _ ok1
    rw [deleteRanges_eq_deleteAll] at hf
    have hrsF := RSorted_of_OSorted s1 _ m1 m2 0 (fun _ _ => Nat.zero_le _)
    have heq := deleteAll_eq (bytesOf s1) _ 0 hrsF o hf
    simp only [List.take_zero, List.drop_zero, List.nil_append] at heq
    refine ⟨ranges, formatCollect_hulls _ pos pos ranges [] hnp hfc, heq, ?_, ?_⟩
    · intro d hd
      have hd2 := C14.merged_subset _ d hd
      simp only [inAny, List.any_eq_true] at hd2
      obtain ⟨x, hxr, hxd⟩ := hd2
      obtain ⟨p, hp, g⟩ := loc1 x hxr
      simp only [Rng.contains, Bool.and_eq_true, decide_eq_true_eq] at hxd
      refine ⟨x.1, x.2, p.1, hxd.1, hxd.2, g.le1, g.le2, ?_, ?_⟩
      · intro i hi1 hi2
        obtain ⟨y, hy, hyw⟩ := g.ws i hi1 hi2
        exact ⟨y, hy, isWs_of_isWsByte y hyw⟩
      · rcases hb p hp with h | h
        · exact Or.inl (by omega)
        · exact Or.inr h
    · intro d hd
      simp only [inAny, List.any_eq_true] at hd
      obtain ⟨r, hr, hrd⟩ := hd
      simp only [Rng.contains, Bool.and_eq_true, decide_eq_true_eq] at hrd
      obtain ⟨y, hy, hyw⟩ := (m1 r hr).ws d hrd.1 hrd.2
      exact ⟨y, hy, isWs_of_isWsByte y hyw⟩

/-! ### tokens of pieces, without conditions on the texts -/

/-- what a token of a sequence of pieces looks like when nothing is asked of the texts -/
def TokShapeW (ds de : List Char) (kv : TKind × List Char) : Prop :=
  match kv.1 with
  | .text => True
  | .element => ∃ b0 rest, kv.2 = ds ++ (b0 :: (rest ++ de))

theorem tnorm_shapeW (ds de : List Char) : ∀ (ps : List Piece) (acc : List Char),
    ∀ kv ∈ tnorm ds de [] ps acc, TokShapeW ds de kv
  | [], acc, kv, hkv => by
    simp only [tnorm, List.append_nil] at hkv
    split at hkv
    · simp only [List.mem_singleton] at hkv
      subst hkv
      trivial
    · simp at hkv
  | .text s :: ps, acc, kv, hkv => by
    simp only [tnorm] at hkv
    exact tnorm_shapeW ds de ps _ kv hkv
  | .tag b0 rest :: ps, acc, kv, hkv => by
    simp only [tnorm, List.mem_append, List.mem_singleton] at hkv
    rcases hkv with (h | h) | h
    · split at h
      · simp only [List.mem_singleton] at h
        subst h; trivial
      · simp at h
    · subst h
      exact ⟨b0, rest, rfl⟩
    · exact tnorm_shapeW ds de ps [] kv h

theorem tokShapeW_of_shape (d0 e0 : Char) (ds de : List Char) (kv : TKind × List Char)
    (h : TokShape d0 e0 ds de kv) : TokShapeW ds de kv := by
  unfold TokShape at h
  unfold TokShapeW
  cases hk : kv.1 with
  | text => trivial
  | element =>
    rw [hk] at h
    obtain ⟨b0, rest, hv, _⟩ := h
    exact ⟨b0, rest, hv⟩

/-- `pieces_exact` without conditions on the texts (and without the conclusion that the new pieces are well delimited) -/
theorem pieces_exact_w (d0 : Char) (dr : List Char) (e0 : Char) (er : List Char) (hd0 : wsChar d0 = false)
    (hel : ∀ w c, (e0 :: er) = w ++ [c] → wsChar c = false) (F : List Rng) (K : Bytes)
    (hF : ∀ d, inAny F d = true → ∃ y, K[d]? = some y ∧ isWs y = true) :
    ∀ (L : List Token) (off : Nat) (pre : Bytes),
    K = pre ++ (L.map fun t => bytesOf t.value).flatten → pre.length = off →
    (∀ t ∈ L, TokShapeW (d0 :: dr) (e0 :: er) (t.kind, t.value)) →
    CoresKept F (layoutOf (L.map fun t => bytesOf t.value)) off →
    ∃ ps,
      bytesOf (renderAll (d0 :: dr) (e0 :: er) ps) = minusFrom (L.map fun t => bytesOf t.value).flatten off F ∧
      PExact (d0 :: dr) (e0 :: er) F ps L off
  | [], _, _, _, _, _, _ => ⟨[], by simp [renderAll, minusFrom], trivial⟩
  | t :: L, off, pre, hK, hpre, hsh, hck => by
    have hsht := hsh t (by simp)
    obtain ⟨hs, _, _, _, _⟩ := trimWs_decomp (bytesOf t.value)
    have hlen : (bytesOf t.value).length =
        (trimL (bytesOf t.value)).length + (trimWs (bytesOf t.value)).length + (trimR (bytesOf t.value)).length := by
      conv => lhs; rw [hs]
      simp [Nat.add_assoc]
    simp only [List.map_cons, layoutOf, CoresKept, List.length_nil, Nat.add_zero] at hck
    obtain ⟨hcore, _, hrest⟩ := hck
    obtain ⟨ps, p2, p5⟩ := pieces_exact_w d0 dr e0 er hd0 hel F K hF L (off + (bytesOf t.value).length)
      (pre ++ bytesOf t.value) (by rw [hK]; simp) (by simp [hpre]) (fun u hu => hsh u (by simp [hu]))
      (by rw [hlen]; simpa [Nat.add_assoc] using hrest)
    simp only [List.map_cons, List.flatten_cons]
    rw [minusFrom_append, ← p2]
    cases hk : t.kind with
    | element =>
      simp only [TokShapeW, hk] at hsht
      obtain ⟨b0, rest, hv⟩ := hsht
      obtain ⟨w, c, hwc⟩ := exists_snoc (e0 :: er) (by simp)
      have hcw := hel w c hwc
      have hval : t.value = (d0 :: (dr ++ (b0 :: rest) ++ w)) ++ [c] := by
        rw [hv, hwc]; simp
      obtain ⟨y, hy, hyc⟩ := bytesOf_last (d0 :: (dr ++ (b0 :: rest) ++ w)) c
      rw [← hval] at hy
      have hyw : isWs y = false := by
        rcases hyc with rfl | rfl
        · exact isWs_cont
        · rw [isWs_lead]; exact hcw
      have hhead : (bytesOf t.value).head? = some (.lead d0) := by rw [hv]; exact bytesOf_head d0 _
      obtain ⟨t1, t2, t3⟩ := trim_full (bytesOf t.value) _ y hhead (by rw [isWs_lead]; exact hd0) hy hyw
      have hkeep : minusFrom (bytesOf t.value) off F = bytesOf t.value := by
        apply minusFrom_keep
        intro i hi1 hi2
        rw [t1, t2] at hcore
        exact hcore i (by simpa using hi1) (by simpa using hi2)
      rw [hkeep]
      refine ⟨.tag b0 rest :: ps, ?_, ⟨hk, hv, p5⟩⟩
      simp only [renderAll, Piece.render]
      rw [← hv, bytesOf_append]
    | text =>
      obtain ⟨v', hv', _, _⟩ := minusFrom_encoded F t.value off (by
        intro k hk' hFk
        obtain ⟨y, hy, hyw⟩ := hF (off + k) hFk
        refine ⟨y, ?_, hyw⟩
        rw [hK, List.getElem?_append_right (by omega), hpre] at hy
        simp only [List.map_cons, List.flatten_cons] at hy
        rw [Nat.add_sub_cancel_left, List.getElem?_append_left hk'] at hy
        exact hy)
      rw [hv']
      refine ⟨.text v' :: ps, ?_, ⟨hk, hv'.symm, p5⟩⟩
      simp only [renderAll, Piece.render, bytesOf_append]

/-- the tokens that survive the removal of the ready elements, in order -/
def survivors (src ds de : List Char) (cfg : Cfg) : List Token :=
  flattenParts (pruneParts (conditionHolds cfg) (parseSource src ds de))

/-- every byte the ranges cover is a whitespace byte of `K` -/
def WsOnly (F : List Rng) (K : Bytes) : Prop := ∀ d, inAny F d = true → ∃ y, K[d]? = some y ∧ isWs y = true

/-- what `PExact` says in plain terms: as many pieces as tokens, and the tags of the pieces are the tag tokens, in order -/
theorem pexact_tags (ds de : List Char) (F : List Rng) : ∀ (qs : List Piece) (L : List Token) (off : Nat),
    PExact ds de F qs L off → qs.length = L.length ∧ tagsOf ds de qs = tagValues L
  | [], [], _, _ => ⟨rfl, rfl⟩
  | [], _ :: _, _, h => by simp [PExact] at h
  | .text _ :: _, [], _, h => by simp [PExact] at h
  | .tag _ _ :: _, [], _, h => by simp [PExact] at h
  | .text v :: qs, t :: L, off, h => by
    obtain ⟨hk, _, hr⟩ := h
    obtain ⟨i1, i2⟩ := pexact_tags ds de F qs L _ hr
    refine ⟨by simp [i1], ?_⟩
    simp only [tagsOf, tagValues, List.filter_cons, hk]
    simpa [tagValues] using i2
  | .tag b0 rest :: qs, t :: L, off, h => by
    obtain ⟨hk, hv, hr⟩ := h
    obtain ⟨i1, i2⟩ := pexact_tags ds de F qs L _ hr
    refine ⟨by simp [i1], ?_⟩
    simp only [tagsOf, tagValues, List.filter_cons, hk]
    simp only [tagValues] at i2
    simp [i2, hv]

/-- everything one cleaning of a source without `unwrap-block` gives, when its tokens are the normalised pieces -/
theorem clean_exact (d0 : Char) (dr : List Char) (e0 : Char) (er : List Char)
    (hd0 : wsChar d0 = false) (hel : ∀ w c, (e0 :: er) = w ++ [c] → wsChar c = false)
    (ps : List Piece)
    (htn : (tokenize (renderAll (d0 :: dr) (e0 :: er) ps) (d0 :: dr) (e0 :: er)).map (fun t => (t.kind, t.value))
      = tnorm (d0 :: dr) (e0 :: er) [] ps [])
    (cfg : Cfg) (out : List Char)
    (hnu : NoUnwrapAttr (parseSource (renderAll (d0 :: dr) (e0 :: er) ps) (d0 :: dr) (e0 :: er)))
    (h : clean (renderAll (d0 :: dr) (e0 :: er) ps) (d0 :: dr) (e0 :: er) cfg = .ok out) :
    ∃ qs s1 ranges,
      out = renderAll (d0 :: dr) (e0 :: er) qs ∧
      bytesOf s1 = toksBytes (flattenParts (pruneParts (conditionHolds cfg)
        (parseSource (renderAll (d0 :: dr) (e0 :: er) ps) (d0 :: dr) (e0 :: er)))) ∧
      HullsOf (bytesOf s1)
        ((seamIdxParts (conditionHolds cfg) (parseSource (renderAll (d0 :: dr) (e0 :: er) ps) (d0 :: dr) (e0 :: er)) 0).1.map
          (bnd (flattenParts (pruneParts (conditionHolds cfg)
            (parseSource (renderAll (d0 :: dr) (e0 :: er) ps) (d0 :: dr) (e0 :: er)))))) ranges ∧
      PExact (d0 :: dr) (e0 :: er) (mergeOverlapped ranges) qs
        (flattenParts (pruneParts (conditionHolds cfg)
          (parseSource (renderAll (d0 :: dr) (e0 :: er) ps) (d0 :: dr) (e0 :: er)))) 0 ∧
      (∀ t ∈ flattenParts (pruneParts (conditionHolds cfg)
          (parseSource (renderAll (d0 :: dr) (e0 :: er) ps) (d0 :: dr) (e0 :: er))),
        t.value ≠ [] ∧ TokShapeW (d0 :: dr) (e0 :: er) (t.kind, t.value)) ∧
      WsOnly (mergeOverlapped ranges) (bytesOf s1) := by
  have hnr : NoReadyUnwrap cfg (parseSource (renderAll (d0 :: dr) (e0 :: er) ps) (d0 :: dr) (e0 :: er)) :=
    fun e he _ => hnu e he
  generalize hsrc : renderAll (d0 :: dr) (e0 :: er) ps = src at h hnu hnr htn ⊢
  have hde : (e0 :: er) ≠ [] := by simp
  obtain ⟨hok', _⟩ := tokenize_ok src (d0 :: dr) (e0 :: er) hde
  have hfl : flattenParts (parseSource src (d0 :: dr) (e0 :: er)) = tokenize src (d0 :: dr) (e0 :: er) := parse_flatten (d0 :: dr) (e0 :: er) _
  have hspan : BSpan (flattenParts (parseSource src (d0 :: dr) (e0 :: er))) 0 (blen src) := by
    have := BSpan_of_chain _ 0 0 hok'.chain
    rw [hok'.flatEq, Nat.zero_add] at this
    rw [hfl]; exact this
  generalize hX : readyExtents cfg (bytesOf src) (parseSource src (d0 :: dr) (e0 :: er)) = X
  have hXe : ∀ i, 0 ≤ i → i < blen src → inAny X i = inAny (extentsOfParts cfg (bytesOf src) (parseSource src (d0 :: dr) (e0 :: er))) i :=
    fun i _ _ => by rw [← hX, readyExtents_eq]
  obtain ⟨hA, hW⟩ := prune_tokens cfg (bytesOf src) X (parseSource src (d0 :: dr) (e0 :: er)) 0 (blen src) hspan hnr hXe
  rw [hfl] at hA hW
  generalize hT : tokenize src (d0 :: dr) (e0 :: er) = T at hA hW hok' hfl htn
  rw [hA]
  unfold clean at h
  simp only [bind, Except.bind, pure, Except.pure] at h
  generalize hM : buildRemoveMarker cfg (bytesOf src) (parseSource src (d0 :: dr) (e0 :: er)) = M at h
  cases hrm : removeMarkers (bytesOf src) M with
  | error e => rw [hrm] at h; simp at h
  | ok removed =>
    rw [hrm] at h
    simp only at h
    cases hpos : getRemovedPos M with
    | error e => rw [hpos] at h; simp at h
    | ok pos =>
      rw [hpos] at h
      simp only at h
      cases hf : format removed pos with
      | error e => rw [hf] at h; simp at h
      | ok o =>
        rw [hf] at h
        simp only at h
        injection h with h
        subst h
        obtain ⟨hs, hcov⟩ := buildRemoveMarker_spec src (d0 :: dr) (e0 :: er) cfg hde
        rw [hM] at hs hcov
        have hcov' : ∀ i, inAny X i = true ↔ mcov M i := by
          intro i; rw [hcov i, ← hX]; rfl
        have hnp : ∀ m ∈ M, m.pair = none := by
          rw [← hM]
          exact mergeMarkers_nopair _ [] (collect_nopairs cfg (bytesOf src) _ hnr) (by simp)
        have hremoved : removed = (tokSegs X T).flatten := by
          have h1 := C02.removed_eq src (d0 :: dr) (e0 :: er) cfg hde removed (by rw [hM]; exact hrm)
          rw [h1, minusRanges_eq_minusFrom]
          have : extentsOfSource src (d0 :: dr) (e0 :: er) cfg = X := hX
          rw [this, tokSegs_flatten]
          have := minusFrom_tokens X T 0 0 hok'.chain hW
          rw [hok'.flatEq] at this
          exact this
        have hremoved' : removed = toksBytes (T.filter (keepTok X)) := hremoved
        have hpos' := removedPosAux_eq M 0 0 (blen src) hs (Nat.le_refl _)
        unfold getRemovedPos at hpos
        rw [hpos'] at hpos
        injection hpos with hpos
        have hposk := positions_koffTo X (bytesOf src) M 0 0 (blen src) hs (by simp)
          (fun i _ => hcov' i) (by simp [koffTo_zero])
        obtain ⟨s1, hs1⟩ := deleteAll_wellFormed src _ removed hrm
        rw [hs1] at hf
        have hpnp : ∀ p ∈ pos, p.2 = none := by
          intro p hp
          rw [← hpos] at hp
          have := (List.of_mem_zip hp).2
          obtain ⟨m, hm, hmp⟩ := List.mem_map.mp this
          rw [← hmp]; exact hnp m hm
        obtain ⟨ranges, hh, ho, hanch, hFws⟩ := format_explicit' s1 pos o hpnp hf (segEnds (tokSegs X T) 0)
          (by
            intro p hp
            rw [← hpos] at hp
            have hp1 := (List.of_mem_zip hp).1
            rw [hposk] at hp1
            obtain ⟨m, hm, hmp⟩ := List.mem_map.mp hp1
            obtain ⟨g1, g2, g3⟩ := MSorted_bounds M 0 (blen src) hs m hm
            have := koffTo_covered X T hok'.chain hW m.start
              (by rw [hok'.flatEq]; omega) ((hcov' m.start).mpr ⟨m, hm, Nat.le_refl _, g2⟩)
            rw [hok'.flatEq] at this
            rw [← hmp]; exact this)
        rw [← hs1] at ho hanch hFws hh
        have hck := coresKept_of_anchored (mergeOverlapped ranges) removed (tokSegs X T) 0 [] (by simpa using hremoved) rfl
          (by rw [hremoved] at hanch; rw [hremoved]; exact hanch)
        have hshape : ∀ t ∈ T.filter (keepTok X), TokShapeW (d0 :: dr) (e0 :: er) (t.kind, t.value) := by
          intro t ht
          have htm : t ∈ T := (List.mem_filter.mp ht).1
          have hkv : (t.kind, t.value) ∈ T.map (fun t => (t.kind, t.value)) := List.mem_map.mpr ⟨t, htm, rfl⟩
          rw [htn] at hkv
          exact tnorm_shapeW _ _ ps [] _ hkv
        obtain ⟨qs, q2, q5⟩ := (pieces_exact_w d0 dr e0 er hd0 hel (mergeOverlapped ranges) removed hFws)
          (T.filter (keepTok X)) 0 [] (by simpa [tokSegs] using hremoved) rfl hshape
          (by simpa [tokSegs] using hck)
        have hout : charsOf o = renderAll (d0 :: dr) (e0 :: er) qs := by
          rw [ho, hremoved]
          have : (tokSegs X T).flatten = ((T.filter (keepTok X)).map fun t => bytesOf t.value).flatten := rfl
          rw [this, ← q2, charsOf_bytesOf]
        -- the seams, counted in surviving tokens
        have hposfst : pos.map (·.1) = positions M 0 := by
          rw [← hpos]
          have hl : (positions M 0).length = (M.map (·.pair)).length := by rw [hposk]; simp
          exact List.map_fst_zip (by omega)
        have hreg := C15.regions_exact src (d0 :: dr) (e0 :: er) cfg hde (wrapFree_of_noUnwrap _ _ hnu)
        have hMstart : M.map (fun m => koffTo X (bytesOf src) m.start) =
            (refRegions (conditionHolds cfg) (bytesOf src) (parseSource src (d0 :: dr) (e0 :: er))).map
              (fun r => koffTo X (bytesOf src) r.1) := by
          rw [← hreg]
          simp only [listMarkers, hM, List.map_map]
          rfl
        have hseam := seam_parts cfg X T hok'.chain hW (parseSource src (d0 :: dr) (e0 :: er)) 0 (blen src) [] []
          (by rw [hfl]; rw [hfl] at hspan; exact hspan)
          hnu (by rw [hok'.flatEq]; exact hXe) (by rw [hfl]; simp)
        rw [hok'.flatEq] at hseam
        simp only [List.filter_nil, List.length_nil] at hseam
        refine ⟨qs, s1, ranges, hout, by rw [← hs1]; exact hremoved', ?_, q5, ?_, by rw [← hs1]; exact hFws⟩
        · rw [← hs1]
          rw [hposfst, hposk, hMstart, hseam] at hh
          exact hh
        · intro t ht
          have htm : t ∈ T := (List.mem_filter.mp ht).1
          refine ⟨?_, hshape t ht⟩
          -- tokens are not empty
          have : ∀ (ts : List Token) (s off : Nat), ChainFrom ts s off → ∀ u ∈ ts, u.value ≠ [] := by
            intro ts
            induction ts with
            | nil => intro _ _ _ u hu; cases hu
            | cons a as ih =>
              intro s off hc u hu
              obtain ⟨_, _, c3, _, _, c6⟩ := hc
              rcases List.mem_cons.mp hu with rfl | hu
              · exact c3
              · exact ih _ _ c6 u hu
          exact this T 0 0 hok'.chain t htm

/-! ### the facts the two surviving token lists share -/

mutual
theorem seamIdx_le (P : Element → Bool) : ∀ (parts : List Part) (n : Nat),
    ∀ k ∈ (seamIdxParts P parts n).1, n ≤ k ∧ k ≤ (seamIdxParts P parts n).2
  | [], _, k, hk => by simp [seamIdxParts] at hk
  | p :: ps, n, k, hk => by
    simp only [seamIdxParts, List.mem_append] at hk ⊢
    have c1 := seamIdxPart_count P p n
    have c2 := seamIdx_count P ps (seamIdxPart P p n).2
    rcases hk with hk | hk
    · have := seamIdxPart_le P p n k hk
      omega
    · have := seamIdx_le P ps _ k hk
      omega
theorem seamIdxPart_le (P : Element → Bool) : ∀ (p : Part) (n : Nat),
    ∀ k ∈ (seamIdxPart P p n).1, n ≤ k ∧ k ≤ (seamIdxPart P p n).2
  | .text _, _, k, hk => by simp [seamIdxPart] at hk
  | .element el st en ch, n, k, hk => by
    simp only [seamIdxPart] at hk ⊢
    split at hk
    · rename_i hP
      simp only [List.mem_singleton] at hk
      subst hk
      simp [hP]
    · rename_i hP
      simp only [hP, Bool.false_eq_true, ite_false]
      have := seamIdx_le P ch (n + 1) k hk
      omega
end

theorem edgeOK_of_shape (d0 : Char) (dr : List Char) (e0 : Char) (er : List Char)
    (hd0 : wsChar d0 = false) (hel : ∀ w c, (e0 :: er) = w ++ [c] → wsChar c = false) (v : List Char)
    (h : TokShapeW (d0 :: dr) (e0 :: er) (.element, v)) : EdgeOK v := by
  simp only [TokShapeW] at h
  obtain ⟨b0, rest, hv⟩ := h
  obtain ⟨w, c, hwc⟩ := exists_snoc (e0 :: er) (by simp)
  refine ⟨⟨d0, dr ++ (b0 :: (rest ++ (e0 :: er))), by rw [hv]; simp, hd0⟩,
    ⟨(d0 :: dr) ++ (b0 :: rest) ++ w, c, by rw [hv, hwc]; simp, hel w c hwc⟩⟩

theorem tokFacts_of (d0 : Char) (dr : List Char) (e0 : Char) (er : List Char)
    (d0' : Char) (dr' : List Char) (e0' : Char) (er' : List Char)
    (hd0 : wsChar d0 = false) (hel : ∀ w c, (e0 :: er) = w ++ [c] → wsChar c = false)
    (hd0' : wsChar d0' = false) (hel' : ∀ w c, (e0' :: er') = w ++ [c] → wsChar c = false) :
    ∀ (L L' : List Token), TokXs (d0 :: dr) (e0 :: er) (d0' :: dr') (e0' :: er') (fun _ _ => True) L L' →
    (∀ t ∈ L, t.value ≠ [] ∧ TokShapeW (d0 :: dr) (e0 :: er) (t.kind, t.value)) →
    (∀ t ∈ L', t.value ≠ [] ∧ TokShapeW (d0' :: dr') (e0' :: er') (t.kind, t.value)) →
    TokFacts L L'
  | [], [], _, _, _ => by
    refine ⟨trivial, ⟨rfl, ?_⟩, ?_, ?_, ?_, ?_⟩
    · intro m t u h; simp at h
    · intro t ht; cases ht
    · intro t ht; cases ht
    · intro t ht; cases ht
    · intro t ht; cases ht
  | [], _ :: _, h, _, _ => absurd h (by simp [TokXs])
  | _ :: _, [], h, _, _ => absurd h (by simp [TokXs])
  | t :: L, u :: L', h, h1, h2 => by
    simp only [TokXs] at h
    obtain ⟨⟨⟨hk, hx⟩, _⟩, hrest⟩ := h
    have ih := tokFacts_of d0 dr e0 er d0' dr' e0' er' hd0 hel hd0' hel' L L' hrest
      (fun x hx' => h1 x (by simp [hx'])) (fun x hx' => h2 x (by simp [hx']))
    obtain ⟨n1, s1⟩ := h1 t (by simp)
    obtain ⟨n2, s2⟩ := h2 u (by simp)
    have hpair : TokPair t u := by
      rcases hx with ⟨hkt, hv⟩ | ⟨hkt, _⟩
      · exact Or.inl ⟨hkt, by rw [← hk]; exact hkt, hv⟩
      · have hku : u.kind = .element := by rw [← hk]; exact hkt
        refine Or.inr ⟨hkt, hku, ?_, ?_⟩
        · rw [hkt] at s1; exact edgeOK_of_shape d0 dr e0 er hd0 hel _ s1
        · rw [hku] at s2; exact edgeOK_of_shape d0' dr' e0' er' hd0' hel' _ s2
    refine ⟨⟨hpair, ih.pairs⟩, ⟨by simp [ih.same.1], ?_⟩, ?_, ?_, ?_, ?_⟩
    · intro m a b ha hb hka
      cases m with
      | zero =>
        simp only [List.getElem?_cons_zero, Option.some.injEq] at ha hb
        subst ha hb
        rcases hx with ⟨_, hv⟩ | ⟨hke, _⟩
        · rw [hv]
        · rw [hka] at hke; cases hke
      | succ j =>
        simp only [List.getElem?_cons_succ] at ha hb
        exact ih.same.2 j a b ha hb hka
    · intro x hx'
      rcases List.mem_cons.mp hx' with rfl | hx'
      · exact blen_pos_of_ne_nil n1
      · exact ih.ne x hx'
    · intro x hx'
      rcases List.mem_cons.mp hx' with rfl | hx'
      · exact blen_pos_of_ne_nil n2
      · exact ih.ne' x hx'
    · intro x hx' hkx
      rcases List.mem_cons.mp hx' with rfl | hx'
      · rw [hkx] at s1
        obtain ⟨⟨c0, r0, e0', n0⟩, ⟨w1, c1, f1, m1⟩⟩ := edgeOK_of_shape d0 dr e0 er hd0 hel _ s1
        refine ⟨⟨.lead c0, by rw [e0']; simp [bytesOf, charBytes], by rw [isWs_lead]; exact n0⟩, ?_⟩
        obtain ⟨y, hy, hyc⟩ := bytesOf_last w1 c1
        rw [← f1] at hy
        rw [List.getLast?_eq_getElem?, length_bytesOf] at hy
        refine ⟨y, hy, ?_⟩
        rcases hyc with rfl | rfl
        · exact isWs_cont
        · rw [isWs_lead]; exact m1
      · exact ih.edges x hx' hkx
    · intro x hx'
      rcases List.mem_cons.mp hx' with rfl | hx'
      · cases hkk : x.kind with
        | text => exact Or.inl rfl
        | element => exact Or.inr rfl
      · exact ih.kinds x hx'

/-- C18 exactly, for documents without `unwrap-block`, in its general form: whenever the tokens of the two renderings
    are the normalised pieces (`htn`, `htn'` - the conclusion of C08 on the source) and the tag bodies can be stripped of
    both delimiter pairs, the two cleanings give one piece list, rendered under the respective pair -/
theorem respell_exact_tn (d0 : Char) (dr : List Char) (e0 : Char) (er : List Char)
    (d0' : Char) (dr' : List Char) (e0' : Char) (er' : List Char)
    (hd0 : wsChar d0 = false) (hel : ∀ w c, (e0 :: er) = w ++ [c] → wsChar c = false)
    (hd0' : wsChar d0' = false) (hel' : ∀ w c, (e0' :: er') = w ++ [c] → wsChar c = false)
    (ps : List Piece)
    (hstrip : ∀ p ∈ ps, p.strip (d0 :: dr) (e0 :: er) ∧ p.strip (d0' :: dr') (e0' :: er'))
    (htn : (tokenize (renderAll (d0 :: dr) (e0 :: er) ps) (d0 :: dr) (e0 :: er)).map (fun t => (t.kind, t.value))
      = tnorm (d0 :: dr) (e0 :: er) [] ps [])
    (htn' : (tokenize (renderAll (d0' :: dr') (e0' :: er') ps) (d0' :: dr') (e0' :: er')).map (fun t => (t.kind, t.value))
      = tnorm (d0' :: dr') (e0' :: er') [] ps [])
    (cfg : Cfg) (out out' : List Char)
    (hnu : NoUnwrapAttr (parseSource (renderAll (d0 :: dr) (e0 :: er) ps) (d0 :: dr) (e0 :: er)))
    (h : clean (renderAll (d0 :: dr) (e0 :: er) ps) (d0 :: dr) (e0 :: er) cfg = .ok out)
    (h' : clean (renderAll (d0' :: dr') (e0' :: er') ps) (d0' :: dr') (e0' :: er') cfg = .ok out') :
    ∃ qs F F', out = renderAll (d0 :: dr) (e0 :: er) qs ∧ out' = renderAll (d0' :: dr') (e0' :: er') qs ∧
      PExact (d0 :: dr) (e0 :: er) F qs (survivors (renderAll (d0 :: dr) (e0 :: er) ps) (d0 :: dr) (e0 :: er) cfg) 0 ∧
      WsOnly F (toksBytes (survivors (renderAll (d0 :: dr) (e0 :: er) ps) (d0 :: dr) (e0 :: er) cfg)) ∧
      PExact (d0' :: dr') (e0' :: er') F' qs (survivors (renderAll (d0' :: dr') (e0' :: er') ps) (d0' :: dr') (e0' :: er') cfg) 0 ∧
      WsOnly F' (toksBytes (survivors (renderAll (d0' :: dr') (e0' :: er') ps) (d0' :: dr') (e0' :: er') cfg)) := by
  have hT := tokXs_of_tnorm (d0 :: dr) (e0 :: er) (d0' :: dr') (e0' :: er') ps [] _ _ hstrip htn htn'
  have hG := parse_x (d0 :: dr) (e0 :: er) (d0' :: dr') (e0' :: er') (fun _ _ => True) (by simp) (by simp) (by simp) (by simp) _ _ hT
  have hnu' : NoUnwrapAttr (parseSource (renderAll (d0' :: dr') (e0' :: er') ps) (d0' :: dr') (e0' :: er')) := by
    intro e he
    have hm : e.1 ∈ (elementsOf (parseSource (renderAll (d0' :: dr') (e0' :: er') ps) (d0' :: dr') (e0' :: er'))).map (·.1) :=
      List.mem_map.mpr ⟨e, he, rfl⟩
    unfold parseSource at hm
    rw [← elements_x _ _ _ _ _ _ _ hG] at hm
    obtain ⟨e1, he1, hee⟩ := List.mem_map.mp hm
    have := hnu e1 he1
    rw [hee] at this
    exact this
  obtain ⟨qs, s1, ranges, o1, k1, hu1, x1, f1, w1⟩ := clean_exact d0 dr e0 er hd0 hel ps htn cfg out hnu h
  obtain ⟨qs', s1', ranges', o2, k2, hu2, x2, f2, w2⟩ := clean_exact d0' dr' e0' er' hd0' hel' ps htn' cfg out' hnu' h'
  unfold survivors
  unfold parseSource at hu1 hu2 k1 k2 x1 x2 f1 f2 ⊢
  have hx := flatten_x _ _ _ _ _ _ _ (prune_x _ _ _ _ _ (conditionHolds cfg) _ _ hG)
  generalize hL : flattenParts (pruneParts (conditionHolds cfg)
    (parse (d0 :: dr) (e0 :: er) (tokenize (renderAll (d0 :: dr) (e0 :: er) ps) (d0 :: dr) (e0 :: er)))) = L at *
  generalize hL' : flattenParts (pruneParts (conditionHolds cfg)
    (parse (d0' :: dr') (e0' :: er') (tokenize (renderAll (d0' :: dr') (e0' :: er') ps) (d0' :: dr') (e0' :: er')))) = L' at *
  have hf := tokFacts_of d0 dr e0 er d0' dr' e0' er' hd0 hel hd0' hel' L L' hx f1 f2
  -- the seams lie behind the same numbers of surviving tokens
  have hidx := seamIdx_x (d0 :: dr) (e0 :: er) (d0' :: dr') (e0' :: er') (fun _ _ => True) (conditionHolds cfg) _ _ 0 hG
  rw [← hidx] at hu2
  have hbound : ∀ k ∈ (seamIdxParts (conditionHolds cfg)
      (parse (d0 :: dr) (e0 :: er) (tokenize (renderAll (d0 :: dr) (e0 :: er) ps) (d0 :: dr) (e0 :: er))) 0).1, k ≤ L.length := by
    intro k hk
    have := seamIdx_le (conditionHolds cfg) _ 0 k hk
    rw [seamIdx_count, hL] at this
    omega
  have hrel := hulls_rel L L' hf s1 s1' k1 k2 _ ranges ranges' hbound hu1 hu2
  have hmono := rho_mono L L' hf.ne hf.ne' hf.same
  have hF := mergeOverlapped_rel (Rho L L') hmono ranges ranges' hrel
  have heq := pexact_eq (d0 :: dr) (e0 :: er) (d0' :: dr') (e0' :: er') L L' hf hx _ _ hF L.length 0 qs qs' rfl
    (Nat.zero_le _) (by simpa [bnd_zero] using x1) (by simpa [bnd_zero] using x2)
  subst heq
  rw [k1] at w1
  rw [k2] at w2
  exact ⟨qs, _, _, o1, o2, x1, w1, x2, w2⟩

/-- C18 exactly, for documents without `unwrap-block`: one piece list under two delimiter pairs is cleaned to one
    piece list under the respective pair -/
theorem respell_exact (d0 : Char) (dr : List Char) (e0 : Char) (er : List Char)
    (d0' : Char) (dr' : List Char) (e0' : Char) (er' : List Char)
    (hd0 : wsChar d0 = false) (hel : ∀ w c, (e0 :: er) = w ++ [c] → wsChar c = false)
    (hd0' : wsChar d0' = false) (hel' : ∀ w c, (e0' :: er') = w ++ [c] → wsChar c = false)
    (ps : List Piece)
    (hfree : ∀ p ∈ ps, p.fits d0 e0 (d0 :: dr) (e0 :: er) ∧ p.fits d0' e0' (d0' :: dr') (e0' :: er'))
    (cfg : Cfg) (out out' : List Char)
    (hnu : NoUnwrapAttr (parseSource (renderAll (d0 :: dr) (e0 :: er) ps) (d0 :: dr) (e0 :: er)))
    (h : clean (renderAll (d0 :: dr) (e0 :: er) ps) (d0 :: dr) (e0 :: er) cfg = .ok out)
    (h' : clean (renderAll (d0' :: dr') (e0' :: er') ps) (d0' :: dr') (e0' :: er') cfg = .ok out') :
    ∃ qs F F', out = renderAll (d0 :: dr) (e0 :: er) qs ∧ out' = renderAll (d0' :: dr') (e0' :: er') qs ∧
      PExact (d0 :: dr) (e0 :: er) F qs (survivors (renderAll (d0 :: dr) (e0 :: er) ps) (d0 :: dr) (e0 :: er) cfg) 0 ∧
      WsOnly F (toksBytes (survivors (renderAll (d0 :: dr) (e0 :: er) ps) (d0 :: dr) (e0 :: er) cfg)) ∧
      PExact (d0' :: dr') (e0' :: er') F' qs (survivors (renderAll (d0' :: dr') (e0' :: er') ps) (d0' :: dr') (e0' :: er') cfg) 0 ∧
      WsOnly F' (toksBytes (survivors (renderAll (d0' :: dr') (e0' :: er') ps) (d0' :: dr') (e0' :: er') cfg)) :=
  respell_exact_tn d0 dr e0 er d0' dr' e0' er' hd0 hel hd0' hel' ps
    (fun p hp => ⟨Piece.strip_of_fits _ _ _ _ p (hfree p hp).1, Piece.strip_of_fits _ _ _ _ p (hfree p hp).2⟩)
    (tokens_tnorm d0 dr e0 er ps (fun p hp => Piece.ok_of_fits _ _ _ _ p (hfree p hp).1))
    (tokens_tnorm d0' dr' e0' er' ps (fun p hp => Piece.ok_of_fits _ _ _ _ p (hfree p hp).2))
    cfg out out' hnu h h'

/-! Non-vacuity: the example of `respell_default` has no `unwrap-block`; both cleanings give the same text. -/
example : NoUnwrapAttr (parseSource (renderAll "<".toList ">".toList exPs2) "<".toList ">".toList) :=
  noUnwrapAttr_of_all _ (by decide +kernel)

/-! Non-vacuity with the command's default delimiters `<!-- <` / `> -->`, whose characters - blank, `-`, `<`, `>` -
    do occur in tag bodies (`tl to='2001-01-01 00:00:00'`): the pieces fit both spellings, and both cleanings give the
    same pieces. -/
def fitsB (d0 e0 : Char) (ds de : List Char) : Piece → Bool
  | .text s => s.all (· != d0)
  | .tag b0 rest => rest.all (· != e0) && !(ds.isPrefixOf ((b0 :: rest) ++ de)) && !(de.reverse.isPrefixOf (b0 :: rest).reverse)

theorem fitsB_sound (d0 e0 : Char) (ds de : List Char) (p : Piece) (h : fitsB d0 e0 ds de p = true) : p.fits d0 e0 ds de := by
  cases p with
  | text s =>
    intro c hc
    simp only [fitsB, List.all_eq_true] at h
    simpa using h c hc
  | tag b0 rest =>
    simp only [fitsB, Bool.and_eq_true, List.all_eq_true, Bool.not_eq_true'] at h
    obtain ⟨⟨h1, h2⟩, h3⟩ := h
    exact ⟨fun c hc => by simpa using h1 c hc, h2, h3⟩

example : (∀ p ∈ exPs2, p.fits '<' '>' "<".toList ">".toList ∧ p.fits '<' '>' "<!-- <".toList "> -->".toList) ∧
    outIs (clean (renderAll "<!-- <".toList "> -->".toList exPs2) "<!-- <".toList "> -->".toList exC2) "a\nm\n\nz\n" = true := by
  refine ⟨?_, by decide +kernel⟩
  intro p hp
  have h1 : exPs2.all (fitsB '<' '>' "<".toList ">".toList) = true := by decide +kernel
  have h2 : exPs2.all (fitsB '<' '>' "<!-- <".toList "> -->".toList) = true := by decide +kernel
  exact ⟨fitsB_sound _ _ _ _ p (List.all_eq_true.mp h1 p hp), fitsB_sound _ _ _ _ p (List.all_eq_true.mp h2 p hp)⟩

end Chiritori.Props.C18
