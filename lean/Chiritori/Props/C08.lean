import Chiritori.Spec.Holds
namespace Chiritori.Props.C08
end Chiritori.Props.C08
