import Chiritori.Lemmas.Tokenizer
import Chiritori.Spec.Holds
/-
  C08 — Tags are recognised wherever they occur (leftmost-shortest delimiter match).

  Full statement: `Statement` (tokenizer = textbook scan on kinds and values, for all sources and all
  non-empty delimiters).  It is FALSE of the current code for every multi-character delimiter
  (known finding D4): `c08_negation_D4` proves the negation on concrete witnesses.
  Proved: the negation on witnesses (here); in Props/C08Partial.lean the whole region where the property
  holds: `c08_single_char` (single-character delimiters, every source) and `c08_wellDelimited_partial`
  (any delimiters, well-delimited sources).
-/
namespace Chiritori.Props.C08
open Chiritori Chiritori.Spec

def Statement : Prop :=
  ∀ (src ds de : List Char), ds ≠ [] → de ≠ [] → c08Holds src ds de (tokenize src ds de) = true

/-- D4: a failed partial delimiter match is not restarted. -/
theorem c08_negation_D4 : ¬ Statement := by
  intro h
  have := h "//* <rm a> */x/* </rm> */".toList "/* <".toList "> */".toList (by decide) (by decide)
  revert this
  decide +kernel

/-- the same defect for the other multi-character pairs named in the property -/
theorem c08_negation_D4_html :
    c08Holds "<!-- <t>> -->".toList "<!-- <".toList "> -->".toList
      (tokenize "<!-- <t>> -->".toList "<!-- <".toList "> -->".toList) = false := by decide +kernel

theorem c08_negation_D4_dashes :
    c08Holds "/// --x-- //".toList "// --".toList "-- //".toList
      (tokenize "/// --x-- //".toList "// --".toList "-- //".toList) = false := by decide +kernel

theorem c08_negation_D4_aab :
    c08Holds "aaabxbba".toList "aab".toList "bba".toList
      (tokenize "aaabxbba".toList "aab".toList "bba".toList) = false := by decide +kernel

/-- ... while for the same sources the textbook scan does find the tag -/
example : textbook "aaabxbba".toList "aab".toList "bba".toList
    = [(.text, ['a']), (.element, "aabxbba".toList)] := by decide +kernel

/-- and single-character delimiters are fine on the analogous input -/
example : c08Holds "<<a>>".toList "<".toList ">".toList (tokenize "<<a>>".toList "<".toList ">".toList) = true := by
  decide +kernel

end Chiritori.Props.C08
