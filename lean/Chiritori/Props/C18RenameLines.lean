import Chiritori.Props.C18Rename
/-
  C18, listing, for a change of tag names (and delimiters): the two spellings of one document are listed with the same
  line ranges, item by item.
-/
namespace Chiritori.Props.C18
open Chiritori Chiritori.Spec

theorem nameOK_no_nl (n : List Char) (h : NameOK n) : n.count '\n' = 0 := by
  obtain ⟨c, cs, rfl, h1, h2⟩ := h
  rw [List.count_eq_zero]
  intro hm
  rcases List.mem_cons.mp hm with hc | hc
  · rw [← hc] at h1
    simp [nameStart, nameChar] at h1
  · have := h2 _ hc
    simp [nameChar] at this

/-- renaming a grammar tag does not change the number of line breaks in it -/
theorem render_count_ren (ρ : List Char → List Char) (tg : TagS) (h1 : NameOK tg.name) (h2 : NameOK (ρ tg.name)) :
    (renTag ρ tg).render.count '\n' = tg.render.count '\n' := by
  simp only [TagS.render, renTag, List.count_append, nameOK_no_nl _ h1, nameOK_no_nl _ h2]

theorem tokNs_zip (ds de ds' de' : List Char) (ρ : List Char → List Char) (N : List Char → Prop)
    (R : Token → Token → Prop) : ∀ (T T' : List Token),
    TokNs ds de ds' de' ρ N (fun _ _ => True) T T' → PW R T T' → TokNs ds de ds' de' ρ N R T T'
  | [], [], _, _ => trivial
  | [], _ :: _, h, _ => absurd h (by simp [TokNs])
  | _ :: _, [], h, _ => absurd h (by simp [TokNs])
  | t :: ts, u :: us, h1, h2 => by
    simp only [TokNs] at h1
    exact ⟨⟨h1.1.1, h2.1⟩, tokNs_zip ds de ds' de' ρ N R ts us h1.2 h2.2⟩

/-- along two corresponding token chains the line counts agree token by token -/
theorem chain_sameLines_n (ds de ds' de' : List Char) (ρ : List Char → List Char) (N : List Char → Prop) (hρ : RenOK ρ N)
    (hnl : ∀ c ∈ ds ++ de, c ≠ '\n') (hnl' : ∀ c ∈ ds' ++ de', c ≠ '\n')
    (hde : ∀ w c, de = w ++ [c] → c ≠ '\n') (hde' : ∀ w c, de' = w ++ [c] → c ≠ '\n') (hden : de ≠ []) (hden' : de' ≠ []) :
    ∀ (T T' : List Token) (s off s' off' : Nat) (pre pre' post post' : Bytes),
    ChainFrom T s off → ChainFrom T' s' off' → TokNs ds de ds' de' ρ N (fun _ _ => True) T T' →
    pre.length = off → pre'.length = off' → pre.count NL = pre'.count NL →
    PW (SameLines (pre ++ (bytesOf (flat T) ++ post)) (pre' ++ (bytesOf (flat T') ++ post'))) T T'
  | [], [], _, _, _, _, _, _, _, _, _, _, _, _, _, _ => trivial
  | [], _ :: _, _, _, _, _, _, _, _, _, _, _, h, _, _, _ => absurd h (by simp [TokNs])
  | _ :: _, [], _, _, _, _, _, _, _, _, _, _, h, _, _, _ => absurd h (by simp [TokNs])
  | t :: ts, u :: us, s, off, s', off', pre, pre', post, post', hc, hc', hx, hp, hp', hcnt => by
    obtain ⟨_, c2, c3, _, c5, c6⟩ := hc
    obtain ⟨_, d2, d3, _, d5, d6⟩ := hc'
    simp only [TokNs] at hx
    obtain ⟨⟨hx0, _⟩, hxs⟩ := hx
    have hl : (bytesOf t.value).length = blen t.value := length_bytesOf _
    have hl' : (bytesOf u.value).length = blen u.value := length_bytesOf _
    have hpos : 0 < blen t.value := blen_pos_of_ne_nil c3
    have hpos' : 0 < blen u.value := blen_pos_of_ne_nil d3
    have hval : (bytesOf t.value).count NL = (bytesOf u.value).count NL ∧
        (bytesOf t.value).dropLast.count NL = (bytesOf u.value).dropLast.count NL := by
      obtain ⟨_, h | h⟩ := hx0
      · rw [h.2]; exact ⟨rfl, rfl⟩
      · obtain ⟨_, tg, hok, hn, hv, hv', _, _⟩ := h
        have hcr := render_count_ren ρ tg hok.1 (hρ.nameOK _ hn hok.1)
        have e1 : (bytesOf t.value).count NL = tg.render.count '\n' := by
          rw [count_bytesOf, hv, List.count_append, List.count_append,
            count_nl_free ds (fun c hc => hnl c (by simp [hc])), count_nl_free de (fun c hc => hnl c (by simp [hc]))]
          simp
        have e2 : (bytesOf u.value).count NL = tg.render.count '\n' := by
          rw [count_bytesOf, hv', List.count_append, List.count_append,
            count_nl_free ds' (fun c hc => hnl' c (by simp [hc])), count_nl_free de' (fun c hc => hnl' c (by simp [hc])), hcr]
          simp
        refine ⟨by rw [e1, e2], ?_⟩
        obtain ⟨w, c, hwc⟩ := exists_snoc de hden
        obtain ⟨w', c', hwc'⟩ := exists_snoc de' hden'
        obtain ⟨y, hy, hyc⟩ := bytesOf_last (ds ++ tg.render ++ w) c
        obtain ⟨y', hy', hyc'⟩ := bytesOf_last (ds' ++ (renTag ρ tg).render ++ w') c'
        have hyn : y ≠ NL := by
          rcases hyc with rfl | rfl
          · decide
          · intro hh; injection hh with hh; exact hde w c hwc hh
        have hyn' : y' ≠ NL := by
          rcases hyc' with rfl | rfl
          · decide
          · intro hh; injection hh with hh; exact hde' w' c' hwc' hh
        have ev : t.value = ds ++ tg.render ++ w ++ [c] := by rw [hv, hwc]; simp
        have ev' : u.value = ds' ++ (renTag ρ tg).render ++ w' ++ [c'] := by rw [hv', hwc']; simp
        rw [← ev] at hy
        rw [← ev'] at hy'
        rw [count_dropLast _ y hy, count_dropLast _ y' hy', if_neg hyn, if_neg hyn', e1, e2]
    have hb1 : (pre ++ (bytesOf (flat (t :: ts)) ++ post)) = pre ++ (bytesOf t.value ++ (bytesOf (flat ts) ++ post)) := by
      rw [flat_cons, bytesOf_append, List.append_assoc]
    have hb2 : (pre' ++ (bytesOf (flat (u :: us)) ++ post')) = pre' ++ (bytesOf u.value ++ (bytesOf (flat us) ++ post')) := by
      rw [flat_cons, bytesOf_append, List.append_assoc]
    refine ⟨⟨?_, ?_, ?_⟩, ?_⟩
    · unfold nlBefore
      rw [hb1, hb2, c2, d2, ← hp, ← hp']
      have t1 := take_pre_append pre (bytesOf t.value) (bytesOf (flat ts) ++ post) 0 (Nat.zero_le _)
      have t2 := take_pre_append pre' (bytesOf u.value) (bytesOf (flat us) ++ post') 0 (Nat.zero_le _)
      simp only [Nat.add_zero, List.take_zero, List.append_nil] at t1 t2
      rw [t1, t2, hcnt]
    · unfold nlBefore
      rw [hb1, hb2, c5, d5, ← hp, ← hp', ← hl, ← hl']
      rw [take_pre_append pre _ _ _ (Nat.le_refl _), take_pre_append pre' _ _ _ (Nat.le_refl _)]
      simp only [List.take_length, List.count_append, hcnt, hval.1]
    · unfold nlBefore
      rw [hb1, hb2, c5, d5, ← hp, ← hp']
      rw [show pre.length + blen t.value - 1 = pre.length + ((bytesOf t.value).length - 1) by rw [hl]; omega,
        show pre'.length + blen u.value - 1 = pre'.length + ((bytesOf u.value).length - 1) by rw [hl']; omega]
      rw [take_pre_append pre _ _ _ (by omega), take_pre_append pre' _ _ _ (by omega)]
      rw [← List.dropLast_eq_take, ← List.dropLast_eq_take]
      simp only [List.count_append, hcnt, hval.2]
    · have ih := chain_sameLines_n ds de ds' de' ρ N hρ hnl hnl' hde hde' hden hden' ts us t.stop t.bstop u.stop u.bstop
        (pre ++ bytesOf t.value) (pre' ++ bytesOf u.value) post post' c6 d6 hxs
        (by rw [List.length_append, hl, hp, c5]) (by rw [List.length_append, hl', hp', d5])
        (by rw [List.count_append, List.count_append, hcnt, hval.1])
      rw [hb1, hb2]
      simpa [List.append_assoc] using ih

mutual
theorem regions_lines_n (ds de ds' de' : List Char) (ρ : List Char → List Char) (N : List Char → Prop)
    (b b' : Bytes) (sel sel' : Element → Bool) (hsel : ∀ el, N el.name → sel' (renEl ρ el) = sel el) :
    ∀ (a a' : List Part), partsN ds de ds' de' ρ N (SameLines b b') a a' →
    (∀ e ∈ elementsOf a, hasAttr e.1 "unwrap-block" = false ∧ e.2.1.bstart < e.2.2.bstop) →
    (∀ e ∈ elementsOf a', hasAttr e.1 "unwrap-block" = false ∧ e.2.1.bstart < e.2.2.bstop) →
    (refRegions sel b a).map (lineRangeOf b) = (refRegions sel' b' a').map (lineRangeOf b')
  | [], [], _, _, _ => rfl
  | [], _ :: _, h, _, _ => absurd h (by simp [partsN])
  | _ :: _, [], h, _, _ => absurd h (by simp [partsN])
  | p :: ps, q :: qs, h, h1, h2 => by
    simp only [partsN] at h
    simp only [refRegions, List.map_append]
    rw [regionsPart_lines_n ds de ds' de' ρ N b b' sel sel' hsel p q h.1 (fun e he => h1 e (by simp [elementsOf, he]))
        (fun e he => h2 e (by simp [elementsOf, he])),
      regions_lines_n ds de ds' de' ρ N b b' sel sel' hsel ps qs h.2 (fun e he => h1 e (by simp [elementsOf, he]))
        (fun e he => h2 e (by simp [elementsOf, he]))]
theorem regionsPart_lines_n (ds de ds' de' : List Char) (ρ : List Char → List Char) (N : List Char → Prop)
    (b b' : Bytes) (sel sel' : Element → Bool) (hsel : ∀ el, N el.name → sel' (renEl ρ el) = sel el) :
    ∀ (p q : Part), partN ds de ds' de' ρ N (SameLines b b') p q →
    (∀ e ∈ elementsOfPart p, hasAttr e.1 "unwrap-block" = false ∧ e.2.1.bstart < e.2.2.bstop) →
    (∀ e ∈ elementsOfPart q, hasAttr e.1 "unwrap-block" = false ∧ e.2.1.bstart < e.2.2.bstop) →
    (refRegionsPart sel b p).map (lineRangeOf b) = (refRegionsPart sel' b' q).map (lineRangeOf b')
  | .text _, .text _, _, _, _ => rfl
  | .text _, .element _ _ _ _, h, _, _ => absurd h (by simp [partN])
  | .element _ _ _ _, .text _, h, _, _ => absurd h (by simp [partN])
  | .element el st en ch, .element el' st' en' ch', h, h1, h2 => by
    simp only [partN] at h
    obtain ⟨hel, hn, hst, hen, hch⟩ := h
    subst hel
    obtain ⟨u1, o1⟩ := h1 (el, st, en) (by simp [elementsOfPart])
    obtain ⟨u2, o2⟩ := h2 (renEl ρ el, st', en') (by simp [elementsOfPart])
    have ih := regions_lines_n ds de ds' de' ρ N b b' sel sel' hsel ch ch' hch
      (fun e he => h1 e (by simp [elementsOfPart, he])) (fun e he => h2 e (by simp [elementsOfPart, he]))
    simp only [refRegionsPart, hsel el hn]
    split
    · rw [extentOf_default b el st en u1 o1, extentOf_default b' (renEl ρ el) st' en' u2 o2]
      simp only [List.map_cons, List.map_nil, lineRangeOf]
      rw [hst.2.1, hen.2.2.2]
    · exact ih
end

/-- C18, listing, for a change of tag names, in its general form (the tokens of either spelling are the normalised
    pieces - the conclusion of C08) -/
theorem list_lines_renamed_tn (d0 : Char) (dr : List Char) (e0 : Char) (er : List Char)
    (d0' : Char) (dr' : List Char) (e0' : Char) (er' : List Char)
    (ρ : List Char → List Char) (N : List Char → Prop) (hρ : RenOK ρ N)
    (hnl : ∀ c ∈ (d0 :: dr) ++ (e0 :: er), c ≠ '\n') (hnl' : ∀ c ∈ (d0' :: dr') ++ (e0' :: er'), c ≠ '\n')
    (ps ps' : List Piece) (hren : PiecesRen ρ N ps ps')
    (hstrip : ∀ p ∈ ps, p.strip (d0 :: dr) (e0 :: er)) (hstrip' : ∀ p ∈ ps', p.strip (d0' :: dr') (e0' :: er'))
    (htn : (tokenize (renderAll (d0 :: dr) (e0 :: er) ps) (d0 :: dr) (e0 :: er)).map (fun t => (t.kind, t.value))
      = tnorm (d0 :: dr) (e0 :: er) [] ps [])
    (htn' : (tokenize (renderAll (d0' :: dr') (e0' :: er') ps') (d0' :: dr') (e0' :: er')).map (fun t => (t.kind, t.value))
      = tnorm (d0' :: dr') (e0' :: er') [] ps' [])
    (cfg : Cfg) (htl : N cfg.tlName) (hrm : N cfg.rmName)
    (hnu : NoUnwrapAttr (parseSource (renderAll (d0 :: dr) (e0 :: er) ps) (d0 :: dr) (e0 :: er))) :
    (listMarkers (renderAll (d0 :: dr) (e0 :: er) ps) (d0 :: dr) (e0 :: er) cfg).map
        (fun x => lineRangeOf (bytesOf (renderAll (d0 :: dr) (e0 :: er) ps)) (x.1.start, x.1.stop)) =
    (listMarkers (renderAll (d0' :: dr') (e0' :: er') ps') (d0' :: dr') (e0' :: er')
        { cfg with tlName := ρ cfg.tlName, rmName := ρ cfg.rmName }).map
        (fun x => lineRangeOf (bytesOf (renderAll (d0' :: dr') (e0' :: er') ps')) (x.1.start, x.1.stop)) := by
  have hT := tokNs_of_tnorm (d0 :: dr) (e0 :: er) (d0' :: dr') (e0' :: er') ρ N ps ps' [] _ _ hren hstrip hstrip' htn htn'
  generalize hsrc : renderAll (d0 :: dr) (e0 :: er) ps = src at hnu hT
  generalize hsrc' : renderAll (d0' :: dr') (e0' :: er') ps' = src' at hT
  obtain ⟨tk, _⟩ := tokenize_ok src (d0 :: dr) (e0 :: er) (by simp)
  obtain ⟨tk', _⟩ := tokenize_ok src' (d0' :: dr') (e0' :: er') (by simp)
  have hpw := chain_sameLines_n (d0 :: dr) (e0 :: er) (d0' :: dr') (e0' :: er') ρ N hρ hnl hnl'
    (fun w c h => hnl c (by rw [h]; simp)) (fun w c h => hnl' c (by rw [h]; simp)) (by simp) (by simp)
    _ _ 0 0 0 0 [] [] [] [] tk.chain tk'.chain hT rfl rfl rfl
  simp only [List.nil_append, List.append_nil, tk.flatEq, tk'.flatEq] at hpw
  have hTL := tokNs_zip _ _ _ _ ρ N _ _ _ hT hpw
  have hG := parse_n (d0 :: dr) (e0 :: er) (d0' :: dr') (e0' :: er') ρ N _ hρ (by simp) (by simp) (by simp) (by simp) _ _ hTL
  have hnu' : NoUnwrapAttr (parseSource src' (d0' :: dr') (e0' :: er')) := by
    intro e he
    have hm : e.1 ∈ (elementsOf (parseSource src' (d0' :: dr') (e0' :: er'))).map (·.1) := List.mem_map.mpr ⟨e, he, rfl⟩
    unfold parseSource at hm
    rw [elements_n _ _ _ _ _ _ _ _ _ hG] at hm
    obtain ⟨e1, he1, hee⟩ := List.mem_map.mp hm
    have := hnu e1 he1
    rw [← hee]
    exact this
  rw [show (fun x : Marker × Bool => lineRangeOf (bytesOf src) (x.1.start, x.1.stop)) =
      (lineRangeOf (bytesOf src)) ∘ (fun x : Marker × Bool => (x.1.start, x.1.stop)) from rfl,
    show (fun x : Marker × Bool => lineRangeOf (bytesOf src') (x.1.start, x.1.stop)) =
      (lineRangeOf (bytesOf src')) ∘ (fun x : Marker × Bool => (x.1.start, x.1.stop)) from rfl,
    ← List.map_map, ← List.map_map,
    C15.regions_exact src _ _ cfg (by simp) (wrapFree_of_noUnwrap _ _ hnu),
    C15.regions_exact src' _ _ _ (by simp) (wrapFree_of_noUnwrap _ _ hnu')]
  have hspan : BSpan (flattenParts (parseSource src (d0 :: dr) (e0 :: er))) 0 (blen src) := by
    have := BSpan_of_chain _ 0 0 tk.chain
    rw [tk.flatEq, Nat.zero_add] at this
    rw [show flattenParts (parseSource src (d0 :: dr) (e0 :: er)) = tokenize src (d0 :: dr) (e0 :: er) from parse_flatten _ _ _]
    exact this
  have hspan' : BSpan (flattenParts (parseSource src' (d0' :: dr') (e0' :: er'))) 0 (blen src') := by
    have := BSpan_of_chain _ 0 0 tk'.chain
    rw [tk'.flatEq, Nat.zero_add] at this
    rw [show flattenParts (parseSource src' (d0' :: dr') (e0' :: er')) = tokenize src' (d0' :: dr') (e0' :: er') from parse_flatten _ _ _]
    exact this
  exact regions_lines_n _ _ _ _ ρ N _ _ (conditionHolds cfg) _ (fun el hn => cond_ren ρ N hρ cfg htl hrm el hn) _ _ hG
    (fun e he => ⟨hnu e he, elements_ordered _ 0 _ hspan e he⟩)
    (fun e he => ⟨hnu' e he, elements_ordered _ 0 _ hspan' e he⟩)


/-- C18, listing, for a change of tag names: the two spellings of one document (grammar tags, no `unwrap-block`,
    delimiters without line breaks) are listed with the same line ranges, item by item -/
theorem list_lines_renamed (d0 : Char) (dr : List Char) (e0 : Char) (er : List Char)
    (d0' : Char) (dr' : List Char) (e0' : Char) (er' : List Char)
    (ρ : List Char → List Char) (N : List Char → Prop) (hρ : RenOK ρ N)
    (hnl : ∀ c ∈ (d0 :: dr) ++ (e0 :: er), c ≠ '\n') (hnl' : ∀ c ∈ (d0' :: dr') ++ (e0' :: er'), c ≠ '\n')
    (ps ps' : List Piece) (hren : PiecesRen ρ N ps ps')
    (hfree : ∀ p ∈ ps, p.fits d0 e0 (d0 :: dr) (e0 :: er)) (hfree' : ∀ p ∈ ps', p.fits d0' e0' (d0' :: dr') (e0' :: er'))
    (cfg : Cfg) (htl : N cfg.tlName) (hrm : N cfg.rmName)
    (hnu : NoUnwrapAttr (parseSource (renderAll (d0 :: dr) (e0 :: er) ps) (d0 :: dr) (e0 :: er))) :
    (listMarkers (renderAll (d0 :: dr) (e0 :: er) ps) (d0 :: dr) (e0 :: er) cfg).map
        (fun x => lineRangeOf (bytesOf (renderAll (d0 :: dr) (e0 :: er) ps)) (x.1.start, x.1.stop)) =
    (listMarkers (renderAll (d0' :: dr') (e0' :: er') ps') (d0' :: dr') (e0' :: er')
        { cfg with tlName := ρ cfg.tlName, rmName := ρ cfg.rmName }).map
        (fun x => lineRangeOf (bytesOf (renderAll (d0' :: dr') (e0' :: er') ps')) (x.1.start, x.1.stop)) :=
  list_lines_renamed_tn d0 dr e0 er d0' dr' e0' er' ρ N hρ hnl hnl' ps ps' hren
    (fun p hp => Piece.strip_of_fits _ _ _ _ p (hfree p hp)) (fun p hp => Piece.strip_of_fits _ _ _ _ p (hfree' p hp))
    (tokens_tnorm d0 dr e0 er ps (fun p hp => Piece.ok_of_fits _ _ _ _ p (hfree p hp)))
    (tokens_tnorm d0' dr' e0' er' ps' (fun p hp => Piece.ok_of_fits _ _ _ _ p (hfree' p hp)))
    cfg htl hrm hnu

end Chiritori.Props.C18
