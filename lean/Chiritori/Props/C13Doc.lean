import Chiritori.Props.C13
import Chiritori.Props.C14
import Chiritori.Lemmas.Lines13
/-
  C13 (a) at document level.

  `c13_lines`: for every source whose removals are all block-style (`BlockStyleK`: in the text after removal every
  seam is followed by a line break - or the end - and preceded on its line by blanks only, the line not being the
  first of the text unless the seam stands at column 0) and in which no ready element carries `unwrap-block`, the
  output of `clean` consists of the non-blank lines of the text after removal - i.e. of the surviving non-blank
  lines of the source - byte for byte, indentation and line break included, each at the beginning of a line, in
  order, with nothing but whitespace between them (`LL`).
-/
namespace Chiritori.Props.C13
open Chiritori Chiritori.Spec

/-- every seam of the text after removal is block-style -/
def BlockStyleK (K : Bytes) (pos : List Nat) : Prop :=
  ∀ p ∈ pos, (K[p]? = some NL ∨ p = K.length) ∧ p ≤ K.length ∧
    ∃ ls, ls ≤ p ∧ IsLS K ls ∧ (∀ i, ls ≤ i → i < p → ∃ x, K[i]? = some x ∧ isBlankByte x) ∧ (ls = 0 → p = 0)

theorem formatBlock_mono (b : Bytes) (pos : Nat) : ∀ (fs : List (Bytes → Nat → R Rng')) (acc r : Rng'),
    formatBlock b pos fs acc = .ok r → r.1 ≤ acc.1 ∧ acc.2 ≤ r.2
  | [], acc, r, h => by
    simp only [formatBlock] at h
    injection h with h; subst h; exact ⟨Nat.le_refl _, Nat.le_refl _⟩
  | f :: fs, acc, r, h => by
    simp only [formatBlock] at h
    cases hf : f b pos with
    | error e => rw [hf] at h; simp at h
    | ok se =>
      obtain ⟨s, e⟩ := se
      rw [hf] at h
      simp only at h
      have := formatBlock_mono b pos fs _ r h
      simp only at this
      omega

theorem hull_le_indent (b : Bytes) (pos : Nat) (r : Rng') (s e : Nat)
    (h : formatBlock b pos seamFormatters (pos, pos) = .ok r) (hi : fmtIndent b pos = .ok (s, e)) : r.1 ≤ s := by
  have key : ∀ fs, formatBlock b pos (fmtIndent :: fs) (pos, pos) = .ok r → r.1 ≤ s := by
    intro fs h
    simp only [formatBlock, hi] at h
    have := formatBlock_mono b pos _ _ r h
    simp only at this
    omega
  exact key _ h

theorem LineStart_of_IsLS (K : Bytes) (x : Nat) (h : IsLS K x) : LineStart K x := by
  rcases h with h | h
  · exact Or.inl h
  · by_cases hx : x = 0
    · exact Or.inl hx
    · exact Or.inr ⟨by omega, h⟩

theorem IsLS_of_LineStart (K : Bytes) (x : Nat) (h : LineStart K x) : IsLS K x := by
  rcases h with h | ⟨_, h⟩
  · exact Or.inl h
  · exact Or.inr h

/-- a non-empty hull of a block-style seam starts at a line start -/
theorem hull_start_ls (s : List Char) (pos : Nat) (r : Rng')
    (hbs : BlockStyleK (bytesOf s) [pos]) (h : formatBlock (bytesOf s) pos seamFormatters (pos, pos) = .ok r)
    (hne : r.1 < (bytesOf s).length) : IsLS (bytesOf s) r.1 := by
  have hp := hull_shape s pos r h
  rcases hp.startOK with hs | hs
  · -- the hull starts at the seam itself: then the seam's line has no indentation
    obtain ⟨hnl, hle, ls, h1, h2, h3, h4⟩ := hbs pos (by simp)
    have hlen : r.2 ≤ (bytesOf s).length := by have := hp.good.len; simpa using this
    rcases hnl with hnl | hend
    · by_cases hlp : ls = pos
      · rw [hs, ← hlp]; exact h2
      · exfalso
        -- the indentation remover finds the line start
        have hls0 : ls ≠ 0 := fun h0 => by have := h4 h0; omega
        have hnlb : (bytesOf s)[ls - 1]? = some NL := by
          rcases h2 with h2 | h2
          · exact absurd h2 hls0
          · exact h2
        have hlt := lt_of_getElem?_some _ _ _ hnl
        have hind : fmtIndent (bytesOf s) pos = .ok (ls, pos) := by
          unfold fmtIndent
          have hb : isBoundary (bytesOf s) pos = true := by unfold isBoundary; rw [hnl]; simp
          have hbi : byteIs (bytesOf s) pos '\n' = true := by unfold byteIs; rw [hnl]; simp
          rw [if_neg (by simp [hb, hbi]; simpa using hlt)]
          rw [indentScan_intro (pos - ls) _ pos (by omega)]
          · simp only [Except.ok.injEq, Prod.mk.injEq, and_true]; omega
          · intro i hi
            rw [rev_take_getElem? _ pos i (by omega) (by omega)]
            obtain ⟨z, hz, hzb⟩ := h3 (pos - 1 - i) (by omega) (by omega)
            exact ⟨z, hz, Or.inr hzb⟩
          · rw [rev_take_getElem? _ pos _ (by omega) (by omega), show pos - 1 - (pos - ls) = ls - 1 by omega]
            exact hnlb
        have := hull_le_indent (bytesOf s) pos r ls pos h hind
        omega
    · -- the seam is the end of the text: the hull does not start inside the text
      exfalso
      omega
  · exact IsLS_of_LineStart _ _ hs

/-- where the seam ranges of the collection loop come from -/
theorem ranges_origin (b : Bytes) (all : List (Nat × Option Nat)) : ∀ (ps : List (Nat × Option Nat))
    (rs bs : List Rng'), formatCollect b all ps = .ok (rs, bs) →
    ∀ r ∈ rs, ∃ p ∈ ps, formatBlock b p.1 seamFormatters (p.1, p.1) = .ok r
  | [], rs, bs, h, r, hr => by
    simp only [formatCollect] at h
    injection h with h
    injection h with h1 _
    rw [← h1] at hr; simp at hr
  | (pos, pair) :: rest, rs, bs, h, r, hr => by
    simp only [formatCollect] at h
    cases h1 : formatBlock b pos seamFormatters (pos, pos) with
    | error e => rw [h1] at h; simp at h
    | ok range =>
      rw [h1] at h
      simp only at h
      split at h
      · simp at h
      · rename_i blk hblk
        cases h2 : formatCollect b all rest with
        | error e => rw [h2] at h; simp at h
        | ok rb =>
          obtain ⟨rs', bs'⟩ := rb
          rw [h2] at h
          simp only at h
          injection h with h
          injection h with hrs _
          rw [← hrs] at hr
          rcases List.mem_cons.mp hr with rfl | hr
          · exact ⟨(pos, pair), by simp, h1⟩
          · obtain ⟨p, hp, g⟩ := ranges_origin b all rest rs' bs' h2 r hr
            exact ⟨p, by simp [hp], g⟩

theorem mergeOverlappedGo_start (xs : List Rng') : ∀ (cur : Rng'), ∀ r ∈ mergeOverlappedGo cur xs,
    r.1 = cur.1 ∨ ∃ x ∈ xs, r.1 = x.1 := by
  induction xs with
  | nil => intro cur r hr; simp [mergeOverlappedGo] at hr; left; rw [hr]
  | cons x xs ih =>
    intro cur r hr
    simp only [mergeOverlappedGo] at hr
    split at hr
    · rcases ih _ r hr with h | ⟨y, hy, h⟩
      · exact Or.inl h
      · exact Or.inr ⟨y, by simp [hy], h⟩
    · rcases List.mem_cons.mp hr with rfl | hr
      · exact Or.inl rfl
      · rcases ih _ r hr with h | ⟨y, hy, h⟩
        · exact Or.inr ⟨x, by simp, h⟩
        · exact Or.inr ⟨y, by simp [hy], h⟩

theorem mergeOverlapped_start (l : List Rng') : ∀ r ∈ mergeOverlapped l, ∃ x ∈ l, r.1 = x.1 := by
  intro r hr
  cases l with
  | nil => simp [mergeOverlapped] at hr
  | cons c cs =>
    rcases mergeOverlappedGo_start cs c r hr with h | ⟨x, hx, h⟩
    · exact ⟨c, by simp, h⟩
    · exact ⟨x, by simp [hx], h⟩

/-- the non-blank lines of a text, each with its line break -/
def nonBlankLinesT (K : Bytes) : List Bytes := (lineLayout (linesT K []) []).1.map (·.2)

/-- C13 (a) for the formatting pass: block-style seams, no unwrap pairs -/
theorem format_lines (s1 : List Char) (pos : List (Nat × Option Nat)) (o : Bytes)
    (hnp : ∀ p ∈ pos, p.2 = none) (hbs : BlockStyleK (bytesOf s1) (pos.map (·.1)))
    (hf : format (bytesOf s1) pos = .ok o) : LL (nonBlankLinesT (bytesOf s1)) o := by
  unfold format at hf
  cases hfc : formatCollect (bytesOf s1) pos pos with
  | error e => rw [hfc] at hf; simp at hf
  | ok rb =>
    obtain ⟨ranges, blocks⟩ := rb
    rw [hfc] at hf
    simp only at hf
    have hblocks : blocks = [] := formatCollect_noblocks _ pos pos ranges blocks hnp hfc
    subst hblocks
    obtain ⟨ok1, _⟩ := formatCollect_ok s1 pos pos ranges [] hfc
    have horig := ranges_origin _ pos pos ranges [] hfc
    have hall : ∀ x ∈ mergeRanges ranges (sortByStart []), RangeOK s1 x := by
      intro x hx
      rcases mem_mergeRanges _ _ _ hx with hx | hx
      · exact ok1 x hx
      · simp [sortByStart] at hx
    have hsub : ∀ x ∈ mergeRanges ranges (sortByStart []), x ∈ ranges := by
      intro x hx
      rcases mem_mergeRanges _ _ _ hx with hx | hx
      · exact hx
      · simp [sortByStart] at hx
    obtain ⟨m1, m2⟩ := mergeOverlapped_spec s1 _ hall
    rw [deleteRanges_eq_deleteAll] at hf
    have hrsF := RSorted_of_OSorted s1 _ m1 m2 0 (fun _ _ => Nat.zero_le _)
    have heq := deleteAll_eq (bytesOf s1) _ 0 hrsF o hf
    simp only [List.take_zero, List.drop_zero, List.nil_append] at heq
    generalize hFdef : mergeOverlapped (mergeRanges ranges (sortByStart [])) = F at *
    -- a block-style seam, singled out
    have hbs1 : ∀ p ∈ pos, BlockStyleK (bytesOf s1) [p.1] := by
      intro p hp q hq
      simp only [List.mem_singleton] at hq
      subst hq
      exact hbs p.1 (List.mem_map.mpr ⟨p, hp, rfl⟩)
    -- the deleted indices avoid the non-blank lines
    have hA : AvoidsLines F (bytesOf s1) := by
      intro ls le x hls hx1 hx2 hle hnonl hterm hxw d hd1 hd2 hd3
      cases hFd : inAny F d with
      | false => rfl
      | true =>
        exfalso
        rw [← hFdef] at hFd
        have hd' := C14.merged_subset _ d hFd
        simp only [inAny, List.any_eq_true] at hd'
        obtain ⟨h, hh, hhd⟩ := hd'
        simp only [Rng.contains, Bool.and_eq_true, decide_eq_true_eq] at hhd
        obtain ⟨p, hp, hfb⟩ := horig h (hsub h hh)
        have hsp := hull_shape s1 p.1 h hfb
        obtain ⟨hnl, hple, lsp, l1, l2, l3, l4⟩ := hbs p.1 (List.mem_map.mpr ⟨p, hp, rfl⟩)
        obtain ⟨y, hy, hyw⟩ := hxw
        have := non_blank_line_intact s1 p.1 h hsp (by
            rcases hnl with hnl | hnl
            · exact Or.inl hnl
            · exact Or.inr (by simpa using hnl))
          ls le x (LineStart_of_IsLS _ _ hls) hx1 hx2 hnonl
          (by
            intro y' hy' hw
            rw [hy] at hy'
            injection hy' with hy'
            subst hy'
            have := isWs_of_isWsByte y hw
            rw [hyw] at this; exact absurd this (by simp))
          (by have := lt_of_getElem?_some _ _ _ hy; simpa using this)
          (by
            -- the seam does not stand strictly inside a non-blank line
            intro _
            by_cases h1 : p.1 ≤ ls
            · exact Or.inl h1
            · by_cases h2 : le < p.1
              · exact Or.inr h2
              · exfalso
                -- then the seam is the line break that ends this line, and the line is blank
                have hpe : p.1 = le := by
                  rcases hnl with hnl | hnl
                  · by_cases hlt : p.1 < le
                    · exact absurd hnl (hnonl p.1 (by omega) hlt)
                    · omega
                  · omega
                have hlseq : lsp = ls := by
                  rcases Nat.lt_trichotomy lsp ls with hlt | heq | hgt
                  · -- a line break inside the blanks of the seam's line
                    exfalso
                    rcases hls with hls | hls
                    · omega
                    · obtain ⟨z, hz, hzs⟩ := l3 (ls - 1) (by omega) (by omega)
                      rw [hls] at hz
                      injection hz with hz
                      subst hz
                      rcases hzs with h | h <;> simp [NL] at h
                  · exact heq
                  · exfalso
                    rcases l2 with l2 | l2
                    · omega
                    · exact hnonl (lsp - 1) (by omega) (by omega) l2
                subst hlseq
                obtain ⟨z, hz, hzs⟩ := l3 x hx1 (by omega)
                rw [hy] at hz
                injection hz with hz
                subst hz
                rcases hzs with h | h <;> (subst h; simp [isWs] at hyw))
        omega
    -- every maximal deleted run starts at a line start
    have hR : RunsAtLS F (bytesOf s1) := by
      intro i hi hprev
      have hi' := hi
      simp only [inAny, List.any_eq_true] at hi'
      obtain ⟨r, hr, hri⟩ := hi'
      simp only [Rng.contains, Bool.and_eq_true, decide_eq_true_eq] at hri
      have hstart : r.1 = i := by
        by_cases he : r.1 = i
        · exact he
        · exfalso
          rcases hprev with h0 | hprev
          · omega
          · have : inAny F (i - 1) = true := by
              simp only [inAny, List.any_eq_true]
              exact ⟨r, hr, by simp [Rng.contains]; omega⟩
            rw [hprev] at this; exact absurd this (by simp)
      have hrok := m1 r hr
      rw [← hFdef] at hr
      obtain ⟨h, hh, hh1⟩ := mergeOverlapped_start _ r hr
      obtain ⟨p, hp, hfb⟩ := horig h (hsub h hh)
      have := hull_start_ls s1 p.1 h (hbs1 p hp) hfb (by
        rw [← hh1, hstart]
        have := hrok.len
        have : i < blen s1 := by omega
        simpa using this)
      rw [← hh1, hstart] at this
      exact this
    -- the layout by lines
    have hflat : bytesOf s1 = [] ++ ([] ++ (linesT (bytesOf s1) []).flatten) := by
      rw [linesT_flatten]; rfl
    obtain ⟨f1, f2, f3⟩ := lineLayout_facts F (bytesOf s1) hA (linesT (bytesOf s1) []) [] [] 0 hflat rfl
      (linesT_ok _ [] (by simp)) (Or.inl rfl) (by simp) (Or.inl rfl)
    have hlay : bytesOf s1 = [] ++ layoutBytes (lineLayout (linesT (bytesOf s1) []) []).1 (lineLayout (linesT (bytesOf s1) []) []).2 := by
      rw [lineLayout_bytes, linesT_flatten]; rfl
    have := LL_of_layout F (bytesOf s1) hR _ _ [] 0 hlay rfl (lineLayout_term _ [] (linesT_ok _ [] (by simp))) f1 f2 f3
    rw [lineLayout_bytes, linesT_flatten] at this
    simp only [List.nil_append] at this
    rw [heq]
    exact this

/-- C13 (a) at document level: when all removals are block-style and nothing is unwrapped, the output is the
    non-blank lines of the text after removal, byte for byte, each at the beginning of a line, in order, with only
    whitespace between them -/
theorem c13_lines (src ds de : List Char) (cfg : Cfg) (out : List Char) (hde : de ≠ [])
    (hnu : NoReadyUnwrap cfg (parseSource src ds de))
    (hbs : BlockStyleK (minusRanges (bytesOf src) (extentsOfSource src ds de cfg))
      (positions (buildRemoveMarker cfg (bytesOf src) (parseSource src ds de)) 0))
    (h : clean src ds de cfg = .ok out) :
    LL (nonBlankLinesT (minusRanges (bytesOf src) (extentsOfSource src ds de cfg))) (bytesOf out) := by
  unfold clean at h
  simp only [bind, Except.bind, pure, Except.pure] at h
  generalize hM : buildRemoveMarker cfg (bytesOf src) (parseSource src ds de) = M at h hbs
  cases hrm : removeMarkers (bytesOf src) M with
  | error e => rw [hrm] at h; simp at h
  | ok removed =>
    rw [hrm] at h
    simp only at h
    cases hpos : getRemovedPos M with
    | error e => rw [hpos] at h; simp at h
    | ok pos =>
      rw [hpos] at h
      simp only at h
      cases hf : format removed pos with
      | error e => rw [hf] at h; simp at h
      | ok o =>
        rw [hf] at h
        simp only at h
        injection h with h
        subst h
        obtain ⟨hs, _⟩ := buildRemoveMarker_spec src ds de cfg hde
        rw [hM] at hs
        have hnp : ∀ m ∈ M, m.pair = none := by
          rw [← hM]
          exact mergeMarkers_nopair _ [] (collect_nopairs cfg (bytesOf src) _ hnu) (by simp)
        have hremoved := C02.removed_eq src ds de cfg hde removed (by rw [hM]; exact hrm)
        have hpos' := removedPosAux_eq M 0 0 (blen src) hs (Nat.le_refl _)
        unfold getRemovedPos at hpos
        rw [hpos'] at hpos
        injection hpos with hpos
        obtain ⟨s1, hs1⟩ := deleteAll_wellFormed src _ removed hrm
        rw [← hremoved, hs1] at hbs ⊢
        rw [hs1] at hf
        obtain ⟨_, s2, hs2⟩ := format_wsSub s1 pos o hf
        rw [hs2, charsOf_bytesOf, ← hs2]
        apply format_lines s1 pos o _ _ hf
        · intro p hp
          rw [← hpos] at hp
          have := (List.of_mem_zip hp).2
          obtain ⟨m, hm, hmp⟩ := List.mem_map.mp this
          rw [← hmp]; exact hnp m hm
        · intro q hq
          apply hbs q
          rw [← hpos] at hq
          obtain ⟨p, hp, rfl⟩ := List.mem_map.mp hq
          exact (List.of_mem_zip hp).1


theorem nonBlankLinesT_eq (K : Bytes) : nonBlankLinesT K = nonBlankLines K := lineLayout_cores _ _

/-- C13 (a), as an equation: the non-blank lines of the output are the non-blank lines of the text after removal
    (= the surviving non-blank lines of the source), byte for byte, in order -/
theorem c13_lines_eq (src ds de : List Char) (cfg : Cfg) (out : List Char) (hde : de ≠ [])
    (hnu : NoReadyUnwrap cfg (parseSource src ds de))
    (hbs : BlockStyleK (minusRanges (bytesOf src) (extentsOfSource src ds de cfg))
      (positions (buildRemoveMarker cfg (bytesOf src) (parseSource src ds de)) 0))
    (h : clean src ds de cfg = .ok out) :
    nonBlankLines (bytesOf out) = nonBlankLines (minusRanges (bytesOf src) (extentsOfSource src ds de cfg)) := by
  have hLL := c13_lines src ds de cfg out hde hnu hbs h
  rw [nonBlankLinesT_eq] at hLL
  apply lines_of_LL _ _ hLL
  intro c hc
  simp only [nonBlankLines, List.mem_filter] at hc
  exact ⟨linesOK_single _ (linesT_ok _ [] (by simp)) c hc.1, by simpa [nbl] using hc.2⟩

/-! ### a decidable form of the hypothesis -/

theorem lineStartBlank_spec (K : Bytes) : ∀ (fuel p ls : Nat), lineStartBlank K fuel p = some ls →
    ls ≤ p ∧ IsLS K ls ∧ (∀ i, ls ≤ i → i < p → ∃ x, K[i]? = some x ∧ isBlankByte x)
  | 0, p, ls, h => by
    simp only [lineStartBlank] at h
    split at h
    · injection h with h; subst h
      exact ⟨by omega, Or.inl rfl, by intro i h1 h2; omega⟩
    · simp at h
  | fuel + 1, p, ls, h => by
    simp only [lineStartBlank] at h
    split at h
    · injection h with h; subst h
      exact ⟨by omega, Or.inl rfl, by intro i h1 h2; omega⟩
    · rename_i hp
      cases hx : K[p - 1]? with
      | none => rw [hx] at h; simp at h
      | some x =>
        rw [hx] at h
        simp only at h
        split at h
        · rename_i hnl
          injection h with h; subst h
          exact ⟨Nat.le_refl _, Or.inr (by rw [hx]; simpa using hnl), by intro i h1 h2; omega⟩
        · split at h
          · rename_i hb
            obtain ⟨g1, g2, g3⟩ := lineStartBlank_spec K fuel (p - 1) ls h
            refine ⟨by omega, g2, ?_⟩
            intro i h1 h2
            by_cases hi : i < p - 1
            · exact g3 i h1 hi
            · have : i = p - 1 := by omega
              subst this
              refine ⟨x, hx, ?_⟩
              simp only [isBlankB, Bool.or_eq_true, beq_iff_eq] at hb
              exact hb
          · simp at h

theorem blockStyleB_sound (K : Bytes) (pos : List Nat) (h : blockStyleB K pos = true) : BlockStyleK K pos := by
  intro p hp
  simp only [blockStyleB, List.all_eq_true] at h
  have := h p hp
  simp only [Bool.and_eq_true, Bool.or_eq_true, beq_iff_eq, decide_eq_true_eq] at this
  obtain ⟨⟨h1, h2⟩, h3⟩ := this
  cases hl : lineStartBlank K (p + 1) p with
  | none => rw [hl] at h3; simp at h3
  | some ls =>
    rw [hl] at h3
    obtain ⟨g1, g2, g3⟩ := lineStartBlank_spec K (p + 1) p ls hl
    refine ⟨h1, h2, ls, g1, g2, g3, ?_⟩
    intro hls
    simp only [Bool.or_eq_true, Bool.not_eq_true', beq_eq_false_iff_ne, ne_eq, beq_iff_eq] at h3
    rcases h3 with h3 | h3
    · exact absurd hls h3
    · exact h3

theorem noReadyUnwrapB_sound (cfg : Cfg) (parts : List Part) (h : noReadyUnwrapB cfg parts = true) :
    NoReadyUnwrap cfg parts := by
  intro e he hc
  simp only [noReadyUnwrapB, List.all_eq_true] at h
  have := h e he
  simp only [hc, Bool.not_true, Bool.false_or, Bool.not_eq_true'] at this
  exact this

/-- the predicate the check evaluates on the implementation's output (`Spec.c13Holds`) is a theorem of the model -/
theorem c13Holds_model (src ds de : List Char) (cfg : Cfg) (out : List Char) (hde : de ≠ [])
    (h : clean src ds de cfg = .ok out) (r : Bool) (hr : c13Holds src ds de cfg out = some r) : r = true := by
  obtain ⟨hs, _⟩ := buildRemoveMarker_spec src ds de cfg hde
  have hpos' := removedPosAux_eq _ 0 0 (blen src) hs (Nat.le_refl _)
  have e : ((positions (buildRemoveMarker cfg (bytesOf src) (parseSource src ds de)) 0).zip
      ((buildRemoveMarker cfg (bytesOf src) (parseSource src ds de)).map (·.pair))).map (·.1)
      = positions (buildRemoveMarker cfg (bytesOf src) (parseSource src ds de)) 0 := by
    rw [List.map_fst_zip]
    have : ∀ (ms : List Marker) (k : Nat), (positions ms k).length = ms.length := by
      intro ms; induction ms with
      | nil => intro k; rfl
      | cons m ms ih => intro k; simp [positions, ih]
    simp [this]
  unfold c13Holds at hr
  dsimp only at hr
  unfold getRemovedPos at hr
  rw [hpos'] at hr
  simp only [e] at hr
  by_cases hcond : (noReadyUnwrapB cfg (parseSource src ds de) &&
      blockStyleB (minusRanges (bytesOf src) (readyExtents cfg (bytesOf src) (parseSource src ds de)))
        (positions (buildRemoveMarker cfg (bytesOf src) (parseSource src ds de)) 0)) = true
  · rw [if_pos hcond] at hr
    simp only [Bool.and_eq_true] at hcond
    obtain ⟨h1, h2⟩ := hcond
    injection hr with hr
    rw [← hr]
    simp only [beq_iff_eq]
    exact c13_lines_eq src ds de cfg out hde (noReadyUnwrapB_sound _ _ h1) (blockStyleB_sound _ _ h2) h
  · rw [if_neg hcond] at hr
    simp at hr

/-! Non-vacuity: two block-style removals (one indented, blank lines around), a pending block in between. -/
def exCfg : Cfg := ⟨"tl".toList, "rm".toList, 1577836800, 0, "+00:00".toList, ["a".toList]⟩
def exSrc : List Char :=
  "foo\n\n  <rm name='a'>\n  x\n  </rm>\n\n  bar\n<rm name='b'>\n\ty é\n</rm>\n<tl to='2000-01-01 00:00:00'>\nz\n</tl>\nend".toList
example : blockStyleB (minusRanges (bytesOf exSrc) (extentsOfSource exSrc "<".toList ">".toList exCfg))
    (positions (buildRemoveMarker exCfg (bytesOf exSrc) (parseSource exSrc "<".toList ">".toList)) 0) = true := by
  decide +kernel
example : (nonBlankLines (minusRanges (bytesOf exSrc) (extentsOfSource exSrc "<".toList ">".toList exCfg))).length = 6 := by
  decide +kernel

end Chiritori.Props.C13
