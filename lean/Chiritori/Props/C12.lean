import Chiritori.Lemmas.FormatBlock
/-
  C12 — Unwrap-block dedents the surviving body uniformly and safely.

  What is proved is the shape of every range the block indent remover returns (for every text, every pair of
  seam positions):
  * `blockLoop_shape`: each range belongs to one line that starts at `ls` (the position handed in, or the
    position behind a line break) and whose first non-blank byte is at `ip`; with tag column `t` and shift `s`
    it is `[min(ls+t, ip), min(min(ls+t, ip) + s, ip))`;
  * `lineRange_arith` / `dedent_formula`: with `w = ip - ls` the indentation of that line, the range starts at
    column `min(t, w)`, removes `min(s, w - min(t, w))` bytes, so the new indentation is `w` when `w ≤ t` and
    `max(w - s, t)` otherwise: every line is shifted by the same `s`, never left of the tag column, lines at or
    left of the tag column are untouched;
  * `fmtBlockIndent_shape`: `t` is the column of the head seam (bytes between the preceding line break and the
    seam, 0 if anything but blanks precedes it) and `s` the indentation of the first block line minus `t`,
    truncated at 0; only blanks are consumed (`fmtBlockIndent_ok`).
  * `blockLoop_complete` / `fmtBlockIndent_complete`: conversely *every* line of the block - every line that
    starts at or behind the first block line and whose line break lies before the tail seam - gets exactly that
    range (when it is not empty), so no inner line is skipped.
  Not proved yet: the composition over nested blocks (union of the column intervals) and the link from the seam
  positions in the removed text back to the source's tag column; the file-start region is the known finding D11.
-/
namespace Chiritori.Props.C12
open Chiritori

/-- the dedent range of a line starting at `ls` whose first non-blank byte is at `ip` -/
def lineRange (ls ip t s : Nat) : Nat × Nat := (min (ls + t) ip, min (min (ls + t) ip + s) ip)

theorem lineRange_arith (ls ip t s : Nat) (h : ls ≤ ip) :
    (lineRange ls ip t s).1 = ls + min t (ip - ls) ∧
    (lineRange ls ip t s).2 - (lineRange ls ip t s).1 = min s (ip - ls - min t (ip - ls)) := by
  unfold lineRange
  constructor <;> simp only <;> omega

/-- the indentation a line keeps: untouched at or left of the tag column, else shifted by `s` but not past it -/
theorem dedent_formula (w t s : Nat) :
    w - min s (w - min t w) = if w ≤ t then w else max (w - s) t := by
  split <;> omega

theorem blockLoop_shape (b : Bytes) (endPos t s fuel cur : Nat) :
    ∀ r ∈ blockLoop b endPos t s fuel cur,
      ∃ ls ip, cur ≤ ls ∧ (ls = cur ∨ (0 < ls ∧ b[ls - 1]? = some (.lead '\n'))) ∧
        findNextChar b ls = some ip ∧ r = lineRange ls ip t s ∧ r.1 ≠ r.2 := by
  induction fuel generalizing cur with
  | zero => simp [blockLoop]
  | succ fuel ih =>
    intro r hr
    simp only [blockLoop] at hr
    split at hr
    · cases hlb : findNextLB b cur false with
      | none => rw [hlb] at hr; simp at hr
      | some lb =>
        rw [hlb] at hr
        simp only at hr
        obtain ⟨_, l1, _, l3, _, _⟩ := findNextLB_some _ cur lb false hlb
        split at hr
        · simp at hr
        · rw [List.mem_append] at hr
          rcases hr with hr | hr
          · cases hip : findNextChar b cur with
            | none => rw [hip] at hr; simp at hr
            | some ip =>
              rw [hip] at hr
              simp only at hr
              split at hr
              · rename_i hne
                simp only [List.mem_singleton] at hr
                subst hr
                exact ⟨cur, ip, Nat.le_refl _, Or.inl rfl, hip, rfl, hne⟩
              · simp at hr
          · obtain ⟨ls, ip, h1, h2, h3, h4, h5⟩ := ih (lb + 1) r hr
            refine ⟨ls, ip, by omega, ?_, h3, h4, h5⟩
            rcases h2 with h2 | h2
            · right; subst h2; exact ⟨by omega, by simpa using l3⟩
            · right; exact h2
    · simp at hr

/-- completeness of the loop: every line that starts at or behind `cur` and whose line break lies before `endPos`
    gets its range (when that range is not empty) -/
theorem blockLoop_complete (b : Bytes) (endPos t s : Nat) : ∀ (fuel cur ls lb ip : Nat),
    0 < cur → cur ≤ ls → (ls = cur ∨ b[ls - 1]? = some (.lead '\n') ∧ cur < ls) →
    ls ≤ lb → b[lb]? = some (.lead '\n') → (∀ i, ls ≤ i → i < lb → b[i]? ≠ some (.lead '\n')) →
    lb + 1 ≤ endPos → ls - cur < fuel →
    findNextChar b ls = some ip → (lineRange ls ip t s).1 ≠ (lineRange ls ip t s).2 →
    lineRange ls ip t s ∈ blockLoop b endPos t s fuel cur
  | 0, _, _, _, _, _, _, _, _, _, _, _, hf, _, _ => by omega
  | fuel + 1, cur, ls, lb, ip, h0, hle, hstart, hlb1, hlb2, hlb3, hend, hf, hip, hne => by
    simp only [blockLoop]
    rw [if_pos (by omega)]
    by_cases hc : ls = cur
    · subst hc
      have hfind : findNextLB b ls false = some lb := by
        cases hx : findNextLB b ls false with
        | none =>
          exact absurd hlb2 (findNextLB_none_false b ls h0 hx lb hlb1)
        | some lb' =>
          obtain ⟨_, g2, _, g4, g5, _⟩ := findNextLB_some _ _ _ _ hx
          have : lb' = lb := by
            rcases Nat.lt_trichotomy lb' lb with h | h | h
            · exact absurd g4 (hlb3 lb' g2 h)
            · exact h
            · exact absurd hlb2 (g5 lb hlb1 h)
          rw [this]
      rw [hfind]
      simp only
      rw [if_neg (by omega), hip]
      simp only
      have hne' : min (ls + t) ip ≠ min (min (ls + t) ip + s) ip := hne
      rw [if_pos hne']
      simp [lineRange]
    · have hst : b[ls - 1]? = some (.lead '\n') ∧ cur < ls := by
        rcases hstart with h | h
        · exact absurd h hc
        · exact h
      cases hx : findNextLB b cur false with
      | none => exact absurd hst.1 (findNextLB_none_false b cur h0 hx (ls - 1) (by omega))
      | some lb' =>
        obtain ⟨_, g2, _, g4, g5, _⟩ := findNextLB_some _ _ _ _ hx
        have hle' : lb' ≤ ls - 1 := by
          rcases Nat.lt_or_ge (ls - 1) lb' with h | h
          · exact absurd hst.1 (g5 (ls - 1) (by omega) h)
          · exact h
        simp only
        rw [if_neg (by omega)]
        apply List.mem_append_right
        apply blockLoop_complete b endPos t s fuel (lb' + 1) ls lb ip (by omega) (by omega) ?_ hlb1 hlb2 hlb3 hend
          (by omega) hip hne
        by_cases he : ls = lb' + 1
        · exact Or.inl he
        · exact Or.inr ⟨hst.1, by omega⟩

/-- column of the head seam and shift, as the code computes them -/
def tagColumn (b : Bytes) (startPos : Nat) : Nat :=
  match findPrevLB b startPos true with
  | some p => startPos - p - 1
  | none => 0

def firstLine (b : Bytes) (startPos : Nat) : Option Nat :=
  ((b.drop startPos).findIdx? (fun x => x == .lead '\n')).map fun ofs => startPos + ofs + 1

theorem fmtBlockIndent_shape (b : Bytes) (startPos endPos : Nat) :
    ∀ r ∈ fmtBlockIndent b startPos endPos,
      ∃ cur ls ip, firstLine b startPos = some cur ∧ cur ≤ ls ∧
        (ls = cur ∨ (0 < ls ∧ b[ls - 1]? = some (.lead '\n'))) ∧ findNextChar b ls = some ip ∧
        r = lineRange ls ip (tagColumn b startPos) (getIndentLen b cur - tagColumn b startPos) ∧ r.1 ≠ r.2 := by
  intro r hr
  unfold fmtBlockIndent at hr
  dsimp only at hr
  cases hf : (b.drop startPos).findIdx? (fun x => x == .lead '\n') with
  | none => rw [hf] at hr; simp at hr
  | some ofs =>
    rw [hf] at hr
    simp only at hr
    obtain ⟨ls, ip, h1, h2, h3, h4, h5⟩ := blockLoop_shape b endPos _ _ _ _ r hr
    exact ⟨startPos + ofs + 1, ls, ip, by simp [firstLine, hf], h1, h2, h3, h4, h5⟩

/-- completeness for the whole pass: every line of the block - from the first line behind the head seam's line up to
    the last line that ends before `endPos` - gets its range -/
theorem fmtBlockIndent_complete (b : Bytes) (startPos endPos cur ls lb ip : Nat)
    (hcur : firstLine b startPos = some cur) (hle : cur ≤ ls)
    (hstart : ls = cur ∨ b[ls - 1]? = some (.lead '\n') ∧ cur < ls)
    (hlb1 : ls ≤ lb) (hlb2 : b[lb]? = some (.lead '\n')) (hlb3 : ∀ i, ls ≤ i → i < lb → b[i]? ≠ some (.lead '\n'))
    (hend : lb + 1 ≤ endPos) (hip : findNextChar b ls = some ip)
    (hne : (lineRange ls ip (tagColumn b startPos) (getIndentLen b cur - tagColumn b startPos)).1 ≠
           (lineRange ls ip (tagColumn b startPos) (getIndentLen b cur - tagColumn b startPos)).2) :
    lineRange ls ip (tagColumn b startPos) (getIndentLen b cur - tagColumn b startPos) ∈ fmtBlockIndent b startPos endPos := by
  unfold firstLine at hcur
  unfold fmtBlockIndent
  dsimp only
  cases hf : (b.drop startPos).findIdx? (fun x => x == .lead '\n') with
  | none => rw [hf] at hcur; simp at hcur
  | some ofs =>
    rw [hf] at hcur
    simp only [Option.map_some, Option.some.injEq] at hcur
    subst hcur
    simp only
    have hlt := lt_of_getElem?_some _ _ _ hlb2
    exact blockLoop_complete b endPos _ _ (b.length + 1) _ ls lb ip (by omega) hle hstart hlb1 hlb2 hlb3 hend
      (by omega) hip hne

/-- only blanks are consumed, at character boundaries -/
theorem only_blanks (s : List Char) (startPos endPos : Nat) :
    ∀ r ∈ fmtBlockIndent (bytesOf s) startPos endPos, RangeOK s r := fmtBlockIndent_ok s startPos endPos

/-! Kernel-evaluated instance: the doc-test of block_indent_remover.rs and a line left of the tag column. -/
example : fmtBlockIndent (bytesOf "foo\n\n  fuga\n  piyo\n\nbar".toList) 4 19 = [(5, 7), (12, 14)] := by decide +kernel
example : fmtBlockIndent (bytesOf "x\n  \n      a\n b\n    c\n  \nz".toList) 4 22 = [(7, 11), (18, 20)] := by decide +kernel

end Chiritori.Props.C12
