import Chiritori.Spec.Holds
namespace Chiritori.Props.C12
end Chiritori.Props.C12
