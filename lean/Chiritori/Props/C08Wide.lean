import Chiritori.Lemmas.ScanWide
/-
  C08 on a wider region than `Piece.ok` (Props/C08Partial.lean).

  `c08_wide`: for any non-empty delimiters, on every source that is a sequence of pieces which *fit* the delimiters
  (`wideOK`, a Boolean function of the pieces and the delimiters), the tokenizer's kinds and values are exactly those
  of the textbook leftmost-shortest scan.  A stretch of text fits when
    (a) the automaton run over it never completes the start delimiter and has no partial match pending at its end, and
    (b) the start delimiter does not occur in the text followed by the delimiter minus its last character;
  a tag body fits in the same way with respect to the end delimiter.  Text may therefore contain the characters of
  the delimiters - the first one included: `<div>` and `<!DOCTYPE html>` in HTML with `<!-- <` / `> -->`, `a / b` and
  `// comment` with `/* <` / `> */`.  What is excluded is the D4 situation (a failed partial match that overlaps a real
  occurrence, or is still pending where a real delimiter begins: `wideOK` is false on the D4 witnesses) - and, beyond it, a
  partial match still pending at the very end of the document (`x <` as the last text), which is harmless but outside the
  hypothesis; no converse is claimed.

  `wideOK_of_ok`: the earlier region (`Piece.ok`: no first delimiter character at all) is a special case.
-/
namespace Chiritori.Props.C08
open Chiritori Chiritori.Spec

theorem c08_wide (d0 : Char) (dr : List Char) (e0 : Char) (er : List Char) (ps : List Piece)
    (hw : wideOK (d0 :: dr) (e0 :: er) ps [] = true) :
    c08Holds (renderAll (d0 :: dr) (e0 :: er) ps) (d0 :: dr) (e0 :: er)
      (tokenize (renderAll (d0 :: dr) (e0 :: er) ps) (d0 :: dr) (e0 :: er)) = true := by
  unfold c08Holds
  simp only [beq_iff_eq]
  have h1 := tokenize_wide d0 dr e0 er ps hw
  have h2 := textbook_wide d0 dr e0 er ps [] (renderAll (d0 :: dr) (e0 :: er) ps).length hw (by simp)
  simp only [List.nil_append] at h2
  unfold textbook
  rw [h2, ← fwd_nil_tnorm, ← h1]
  rfl

/-- kinds and values of the token list, spelled out: maximal texts and the tags, in order -/
theorem tokenize_wide_tnorm (d0 : Char) (dr : List Char) (e0 : Char) (er : List Char) (ps : List Piece)
    (hw : wideOK (d0 :: dr) (e0 :: er) ps [] = true) :
    (tokenize (renderAll (d0 :: dr) (e0 :: er) ps) (d0 :: dr) (e0 :: er)).map (fun t => (t.kind, t.value))
      = tnorm (d0 :: dr) (e0 :: er) [] ps [] := by
  rw [← fwd_nil_tnorm]
  exact tokenize_wide d0 dr e0 er ps hw

/-! ### the earlier region is a special case -/

theorem quietT_free (d0 : Char) (dr : List Char) : ∀ (s : List Char), (∀ c ∈ s, c ≠ d0) →
    quietT (d0 :: dr) .text s = true
  | [], _ => rfl
  | c :: cs, h => by
    have hc : c ≠ d0 := h c (by simp)
    simp only [quietT, checkDelimiterStart, hc, ite_false]
    exact quietT_free d0 dr cs (fun x hx => h x (by simp [hx]))

theorem quietE_free (e0 : Char) (er : List Char) : ∀ (s : List Char), (∀ c ∈ s, c ≠ e0) →
    quietE (e0 :: er) .inDelim s = true
  | [], _ => rfl
  | c :: cs, h => by
    have hc : c ≠ e0 := h c (by simp)
    simp only [quietE, hc, ite_false]
    exact quietE_free e0 er cs (fun x hx => h x (by simp [hx]))

theorem noOcc_free (p0 : Char) (pr : List Char) : ∀ (s : List Char), (∀ c ∈ s, c ≠ p0) → noOcc (p0 :: pr) s = true
  | [], _ => by
    simp only [noOcc, List.nil_append, Option.isNone_iff_eq_none]
    exact findSub_short _ _ (by simp [List.length_dropLast])
  | c :: cs, h => by
    have hc : c ≠ p0 := h c (by simp)
    have ih := noOcc_free p0 pr cs (fun x hx => h x (by simp [hx]))
    simp only [noOcc, Option.isNone_iff_eq_none] at ih ⊢
    simp only [List.cons_append, findSub]
    have : (p0 :: pr).isPrefixOf (c :: (cs ++ (p0 :: pr).dropLast)) = false := by
      simp [List.isPrefixOf, Ne.symm hc]
    rw [this, ih]
    rfl

theorem wideOK_of_ok (d0 : Char) (dr : List Char) (e0 : Char) (er : List Char) :
    ∀ (ps : List Piece) (acc : List Char), (∀ p ∈ ps, p.ok d0 e0) → (∀ c ∈ acc, c ≠ d0) →
      wideOK (d0 :: dr) (e0 :: er) ps acc = true
  | [], acc, _, ha => by
    simp [wideOK, textFit, quietT_free d0 dr acc ha, noOcc_free d0 dr acc ha]
  | .text s :: ps, acc, hok, ha => by
    simp only [wideOK]
    have hs : ∀ c ∈ s, c ≠ d0 := hok (.text s) (by simp)
    exact wideOK_of_ok d0 dr e0 er ps (acc ++ s) (fun p hp => hok p (by simp [hp])) (by
      intro c hc
      rcases List.mem_append.mp hc with h | h
      · exact ha c h
      · exact hs c h)
  | .tag b0 rest :: ps, acc, hok, ha => by
    have hr : ∀ c ∈ rest, c ≠ e0 := hok (.tag b0 rest) (by simp)
    simp only [wideOK, textFit, bodyFit, quietT_free d0 dr acc ha, noOcc_free d0 dr acc ha, quietE_free e0 er rest hr,
      noOcc_free e0 er rest hr, Bool.and_self, Bool.true_and]
    exact wideOK_of_ok d0 dr e0 er ps [] (fun p hp => hok p (by simp [hp])) (by simp)

/-! ### instances: the hypothesis is met by documents that the earlier region excludes, and fails on the D4 witnesses -/

def mkTag (body : String) : Piece :=
  match body.toList with
  | [] => .text []
  | b0 :: rest => .tag b0 rest

/-- an HTML document with the default delimiters: the text holds `<`, `<!` and `<!--` -/
def htmlPs : List Piece :=
  [.text "<!DOCTYPE html>\n<div class=\"a\">\n  <!-- plain comment -->\n  ".toList,
   mkTag "time-limited to='2024/01/01 00:00:00'",
   .text "\n  <p>old < new</p>\n  ".toList,
   mkTag "/time-limited",
   .text "\n</div>\n".toList]

set_option maxRecDepth 16384 in
example : wideOK "<!-- <".toList "> -->".toList htmlPs [] = true ∧
    (htmlPs.all fun p => match p with | .text s => !s.contains '<' | _ => true) = false := by decide +kernel

/-- JavaScript with `/* <` / `> */`: the text holds `/`, `//` and `/*` -/
def jsPs : List Piece :=
  [.text "// header\nlet x = a / b; /* note */\n".toList,
   mkTag "removal-marker name='feature-x'",
   .text "\nlegacy(); // gone\n".toList,
   mkTag "/removal-marker",
   .text "\n".toList]

set_option maxRecDepth 16384 in
example : wideOK "/* <".toList "> */".toList jsPs [] = true := by decide +kernel

/-- the D4 witnesses do not fit: a partial match is pending where the real delimiter begins -/
example : wideOK "/* <".toList "> */".toList [.text "/".toList, mkTag "rm a", .text "x".toList, mkTag "/rm"] [] = false := by
  decide +kernel
example : wideOK "<!-- <".toList "> -->".toList [mkTag "t>"] [] = false := by decide +kernel
example : wideOK "aab".toList "bba".toList [.text "a".toList, mkTag "x"] [] = false := by decide +kernel

end Chiritori.Props.C08
