import Chiritori.Props.C04
import Chiritori.Props.C05
/-
  C19 — Cleaning is idempotent and composes over time.

  Full statement: `Statement` (idempotence, and stepwise = one-shot up to whitespace along non-decreasing chains
  of configurations) for rendered AST documents.  It is FALSE of the current code for documents in which an
  element ends a code line (known finding D14): `c19_negation_D14` replays the witness in the kernel; and for
  documents in which a wrapper line of an unwrap-block is a tag line of another element (known finding D16,
  `c19_negation_D16`, `c19_negation_D16_stacked`).
  Proved:
  * `ready_monotone`: along a chain (time advancing, target set growing, same tag names and offset) no element
    ever becomes un-ready - the set of removable extents of a fixed source only grows (C05/C06 lifted);
  * `idempotent_of_nothing_ready`: a second cleaning changes nothing whenever the first result contains no ready
    element (C04 applied to the result);
  * `skip_stays`, `unregistered_stays`: skipped / unregistered elements are never ready at any step.
  * `idempotent_default` (Props/C19Idem.lean): clean (clean src) = clean src for default-strategy removals in
    well-delimited sources - the refinement chain from extents over tokens and the pruned forest to the tokens of
    the output.
  * `compose_default` (Props/C19Idem.lean): for cfg1 <= cfg2, clean cfg2 (clean cfg1 src) and clean cfg2 src have the
    same non-whitespace characters, again for default-strategy removals in well-delimited sources.
  Not proved: the two laws with unwrapped blocks (the composition law is false there: D14, D16).
-/
namespace Chiritori.Props.C19
open Chiritori Chiritori.Spec

/-- `cfg₁ ≤ cfg₂`: same names and offset, time advances, targets grow -/
structure CfgLe (c1 c2 : Cfg) : Prop where
  tl : c1.tlName = c2.tlName
  rm : c1.rmName = c2.rmName
  off : c1.offset = c2.offset
  time : c1.now < c2.now ∨ (c1.now = c2.now ∧ c1.nowNanos ≤ c2.nowNanos)
  targets : ∀ t ∈ c1.targets, t ∈ c2.targets

theorem expired_mono (c1 c2 : Cfg) (h : CfgLe c1 c2) (el : Element) (he : expired c1 el = true) : expired c2 el = true := by
  unfold expired at he ⊢
  cases hv : attrValue el "to" with
  | none => rw [hv] at he; simp at he
  | some v =>
    rw [hv] at he
    simp only at he ⊢
    rw [← h.off]
    cases hp : chronoParse (v ++ [' '] ++ c1.offset) with
    | none => rw [hp] at he; simp at he
    | some ex =>
      rw [hp] at he
      simp only [instantLt, Bool.not_eq_true', Bool.or_eq_false_iff, decide_eq_false_iff_not, Bool.and_eq_false_iff,
        beq_eq_false_iff_ne] at he ⊢
      obtain ⟨h1, h2⟩ := he
      rcases h.time with ht | ⟨ht1, ht2⟩
      · exact ⟨by omega, Or.inl (by omega)⟩
      · refine ⟨by omega, ?_⟩
        rcases h2 with h2 | h2
        · left; omega
        · right; omega

theorem targeted_mono (c1 c2 : Cfg) (h : CfgLe c1 c2) (el : Element) (he : targeted c1 el = true) : targeted c2 el = true := by
  unfold targeted at he ⊢
  cases hv : attrValue el "name" with
  | none => rw [hv] at he; simp at he
  | some v =>
    rw [hv] at he
    simp only [List.contains_iff_mem] at he ⊢
    exact h.targets v he

/-- no element becomes un-ready as time advances and targets are added -/
theorem ready_monotone (c1 c2 : Cfg) (h : CfgLe c1 c2) (el : Element) (he : conditionHolds c1 el = true) :
    conditionHolds c2 el = true := by
  unfold conditionHolds at he ⊢
  rw [← h.tl, ← h.rm]
  simp only [Bool.and_eq_true, Bool.not_eq_true', Bool.or_eq_true, beq_iff_eq, bne_iff_ne, ne_eq] at he ⊢
  obtain ⟨hs, hc⟩ := he
  refine ⟨hs, ?_⟩
  rcases hc with ⟨h1, h2⟩ | ⟨⟨h1, h2⟩, h3⟩
  · exact Or.inl ⟨h1, targeted_mono c1 c2 h el h2⟩
  · exact Or.inr ⟨⟨h1, h2⟩, expired_mono c1 c2 h el h3⟩

/-- the removable extents of a fixed source only grow -/
theorem extents_grow (c1 c2 : Cfg) (h : CfgLe c1 c2) (b : Bytes) (parts : List Part) (i : Nat)
    (hi : inAny (readyExtents c1 b parts) i = true) : inAny (readyExtents c2 b parts) i = true := by
  unfold readyExtents at hi ⊢
  simp only [inAny, List.any_eq_true, List.mem_flatMap] at hi ⊢
  obtain ⟨r, ⟨e, he, hr⟩, hc⟩ := hi
  refine ⟨r, ⟨e, he, ?_⟩, hc⟩
  split at hr
  · rename_i hcond
    rw [if_pos (ready_monotone c1 c2 h e.1 hcond)]
    exact hr
  · simp at hr

theorem idempotent_of_nothing_ready (x : List Char) (ds de : List Char) (cfg : Cfg) (y : List Char)
    (hds : ds ≠ []) (hde : de ≠ []) (_ : clean x ds de cfg = .ok y) (hn : nothingReady y ds de cfg = true) :
    clean y ds de cfg = .ok y := C04.c04 y ds de cfg hds hde hn

theorem skip_stays (cfg : Cfg) (el : Element) (h : hasAttr el "skip" = true) : conditionHolds cfg el = false := by
  simp [conditionHolds, h]

theorem unregistered_stays (cfg : Cfg) (el : Element) (h1 : el.name ≠ cfg.tlName) (h2 : el.name ≠ cfg.rmName) :
    conditionHolds cfg el = false := by
  simp [conditionHolds, h1, h2]

/-! ### the known finding D14, replayed in the kernel -/
def cfgAt (now : Int) : Cfg := ⟨"tl".toList, "rm".toList, now, 0, "+00:00".toList, []⟩
def d14 : List Char :=
  "<tl to='2003-01-01 00:00:00' unwrap-block>\nif (x) {\n  code <tl to='2001-01-01 00:00:00'>b</tl>\n}\n</tl>\n".toList
def cleanOr (src : List Char) (now : Int) : List Char :=
  match clean src "<".toList ">".toList (cfgAt now) with
  | .ok o => o
  | .error _ => "PANIC".toList
def nonws (s : List Char) : List Char := s.filter fun c => !(c == ' ' || c == '\n' || c == '\t')

/-- stepwise (2001, then 2003) and one-shot (2003) cleaning of the D14 witness differ beyond whitespace:
    the earlier run joins `code` with the wrapper line, the later run can no longer unwrap -/
theorem c19_negation_D14 :
    nonws (cleanOr (cleanOr d14 978307200) 1041379200) ≠ nonws (cleanOr d14 1041379200) := by decide +kernel

example : cleanOr d14 1041379200 = "  code ".toList := by decide +kernel

/-! ### the known finding D16, replayed in the kernel -/
def cfgA (now : Int) : Cfg := ⟨"tl".toList, "rm".toList, now, 0, "+00:00".toList, ["a".toList]⟩
def cleanA (src : List Char) (now : Int) : List Char :=
  match clean src "<".toList ">".toList (cfgA now) with
  | .ok o => o
  | .error _ => "PANIC".toList
def d16 : List Char := "pre\n<tl to='2003-01-01 00:00:00' unwrap-block>\n<rm name='a'>\nx\n</rm>\n</tl>\npost\n".toList
def d16b : List Char :=
  "pre\n<tl to='2003-01-01 00:00:00' unwrap-block>\n<rm name='a' unwrap-block>\n{\nx\n}\n</rm>\n</tl>\npost\n".toList

/-- an unwrap-block whose wrapper lines are the tag lines of its only child: the earlier run (2001, target `a`)
    removes the child, the block is then too short to unwrap and its tags are stranded; one run in 2003 removes all -/
theorem c19_negation_D16 :
    cleanA (cleanA d16 978307200) 1041379200 = "pre\n<tl to='2003-01-01 00:00:00' unwrap-block>\n</tl>\npost\n".toList ∧
    cleanA d16 1041379200 = "pre\npost\n".toList := by decide +kernel

/-- the same with two unwrap-blocks stacked directly on each other -/
theorem c19_negation_D16_stacked :
    cleanA (cleanA d16b 978307200) 1041379200 = "pre\n<tl to='2003-01-01 00:00:00' unwrap-block>\nx\n</tl>\npost\n".toList ∧
    cleanA d16b 1041379200 = "pre\nx\npost\n".toList := by decide +kernel

end Chiritori.Props.C19
