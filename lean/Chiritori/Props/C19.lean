import Chiritori.Spec.Holds
namespace Chiritori.Props.C19
end Chiritori.Props.C19
