import Chiritori.Lemmas.Tokenizer
import Chiritori.Spec.Holds
/-
  C07 — Tokenization is a lossless partition with consistent offsets.

  `Statement` is the full property; `c07` proves it for every source and every pair of non-empty
  delimiters (no bound on the length of the source).
-/
namespace Chiritori.Props.C07
open Chiritori Chiritori.Spec

theorem contiguous_of_chain (ts : List Token) (s bs : Nat) (h : ChainFrom ts s bs) : contiguous ts = true := by
  induction ts generalizing s bs with
  | nil => rfl
  | cons a rest ih =>
    cases rest with
    | nil => rfl
    | cons b rest' =>
      simp only [ChainFrom] at h
      obtain ⟨_, _, _, _, _, hb1, hb2, hrest⟩ := h
      simp only [contiguous, Bool.and_eq_true, beq_iff_eq]
      refine ⟨⟨hb1.symm, hb2.symm⟩, ?_⟩
      exact ih a.stop a.bstop (by simp only [ChainFrom]; exact ⟨hb1, hb2, hrest⟩)

theorem noAdjacentText_of (ts : List Token) (h : NoAdjText ts) : noAdjacentText ts = true := by
  induction ts with
  | nil => rfl
  | cons a rest ih =>
    cases rest with
    | nil => rfl
    | cons b rest' =>
      simp only [NoAdjText] at h
      simp only [noAdjacentText, Bool.and_eq_true, Bool.not_eq_true', Bool.and_eq_false_iff, beq_eq_false_iff_ne]
      refine ⟨?_, ih h.2⟩
      by_cases ha : a.kind = .text
      · right; intro hb; exact h.1 ⟨ha, hb⟩
      · left; exact ha

/-- the position of a token inside a chain -/
theorem chain_at (pre post : List Token) (t : Token) (h : ChainFrom (pre ++ t :: post) 0 0) :
    t.start = (flat pre).length ∧ t.bstart = blen (flat pre) ∧ t.value ≠ [] ∧
    t.stop = (flat pre).length + t.value.length ∧ t.bstop = blen (flat pre) + blen t.value := by
  rw [chainFrom_append] at h
  obtain ⟨_, h2⟩ := h
  simp only [ChainFrom, Nat.zero_add] at h2
  exact ⟨h2.1, h2.2.1, h2.2.2.1, h2.2.2.2.1, h2.2.2.2.2.1⟩

theorem tokenOk_of (src ds de : List Char) (pre post : List Token) (t : Token)
    (hc : ChainFrom (pre ++ t :: post) 0 0) (hf : flat (pre ++ t :: post) = src)
    (hk : t.kind = .element → DelimOK ds de t.value) : tokenOk src ds de t = true := by
  obtain ⟨h1, h2, h3, h4, h5⟩ := chain_at pre post t hc
  have hsrc : src = flat pre ++ (t.value ++ flat post) := by rw [← hf]; simp
  have hb1 : isBoundary (bytesOf src) t.bstart = true := by
    rw [h2, hsrc]; exact isBoundary_blen_prefix _ _
  have hb2 : isBoundary (bytesOf src) t.bstop = true := by
    rw [h5, ← blen_append, hsrc, ← List.append_assoc]; exact isBoundary_blen_prefix _ _
  have hkind : (t.kind == TKind.text || (ds.isPrefixOf t.value && de.isSuffixOf t.value)) = true := by
    cases hkk : t.kind with
    | text => simp
    | element =>
      obtain ⟨body, _, hv⟩ := hk hkk
      have hp : ds <+: t.value := ⟨body ++ de, by rw [hv]; simp⟩
      have hs : de <:+ t.value := ⟨ds ++ body, by rw [hv]⟩
      simp [List.isPrefixOf_iff_prefix.mpr hp, List.isSuffixOf_iff_suffix.mpr hs]
  unfold tokenOk
  simp only [Bool.and_eq_true, bne_iff_ne, ne_eq, beq_iff_eq, decide_eq_true_eq]
  refine ⟨⟨⟨⟨⟨⟨⟨h3, ?_⟩, ?_⟩, ?_⟩, ?_⟩, hb1⟩, hb2⟩, hkind⟩ <;> omega

/-- Full statement of C07 for one token list. -/
def Statement : Prop :=
  ∀ (src ds de : List Char), ds ≠ [] → de ≠ [] → c07Holds src ds de (tokenize src ds de) = true

theorem holds_of_ok (src ds de : List Char) (ts : List Token) (h : TokensOK ds de src ts) (hn : NoAdjText ts) :
    c07Holds src ds de ts = true := by
  unfold c07Holds
  cases hts : ts with
  | nil =>
    have : src = [] := by have := h.flatEq; rw [hts] at this; simpa using this.symm
    simp [this]
  | cons t0 rest =>
    have hne : ts ≠ [] := by rw [hts]; simp
    obtain ⟨ini, hini⟩ : ∃ ini, ts = ini ++ [ts.getLast hne] := ⟨_, (List.dropLast_concat_getLast hne).symm⟩
    have hlast := chain_at ini [] (ts.getLast hne) (by rw [← hini]; exact h.chain)
    have hfl : src = flat ini ++ (ts.getLast hne).value := by
      rw [← h.flatEq]; conv => lhs; rw [hini]
      simp
    have hhead := chain_at [] rest t0 (by rw [← hts]; simpa using h.chain)
    have hall : ts.all (tokenOk src ds de) = true := by
      rw [List.all_eq_true]
      intro t ht
      obtain ⟨pre, post, hsplit⟩ := List.append_of_mem ht
      exact tokenOk_of src ds de pre post t (by rw [← hsplit]; exact h.chain) (by rw [← hsplit]; exact h.flatEq)
        (h.kinds t ht)
    have hcont := contiguous_of_chain ts 0 0 h.chain
    have hna := noAdjacentText_of ts hn
    have hfe : (ts.flatMap (·.value) == src) = true := by
      have := h.flatEq; unfold flat at this; simp [this]
    have hgl : ts.getLast? = some (ts.getLast hne) := List.getLast?_eq_some_getLast hne
    rw [← hts]
    rw [hgl]
    have hh : ts.head? = some t0 := by rw [hts]; rfl
    rw [hh]
    simp only [hcont, hna, hall, hfe, Bool.and_true]
    simp only [Bool.or_eq_true, Bool.and_eq_true, beq_iff_eq]
    right
    refine ⟨⟨⟨?_, ?_⟩, ?_⟩, ?_⟩
    · simpa using hhead.1
    · simpa using hhead.2.1
    · rw [hlast.2.2.2.1, hfl]; simp
    · rw [hlast.2.2.2.2, hfl, blen_append]

theorem c07 : Statement := by
  intro src ds de _ hde
  obtain ⟨hok, hn⟩ := tokenize_ok src ds de hde
  exact holds_of_ok src ds de _ hok hn

/-- corollary used downstream: every tag token is `ds ++ body ++ de` with a non-empty body -/
theorem tag_tokens_delimited (src ds de : List Char) (hde : de ≠ []) :
    ∀ t ∈ tokenize src ds de, t.kind = .element → ∃ body, body ≠ [] ∧ t.value = ds ++ body ++ de :=
  (tokenize_ok src ds de hde).1.kinds

/-! Non-vacuity and sanity: a concrete multi-token source (with a final multi-byte character). -/
example : (tokenize "a<b>cあ".toList "<".toList ">".toList).length = 3 := by decide
example : c07Holds "a<b>cあ".toList "<".toList ">".toList (tokenize "a<b>cあ".toList "<".toList ">".toList) = true := by
  decide
/-- the predicate is not trivially true: the token list of the pre-repair tokenizer (byte_end = 6) is rejected -/
example : c07Holds "a<b>cあ".toList "<".toList ">".toList
    [⟨.text, ['a'], 0, 0, 1, 1⟩, ⟨.element, "<b>".toList, 1, 1, 4, 4⟩, ⟨.text, "cあ".toList, 4, 4, 6, 6⟩] = false := by
  decide

end Chiritori.Props.C07
