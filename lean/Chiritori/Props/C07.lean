import Chiritori.Spec.Holds
namespace Chiritori.Props.C07
end Chiritori.Props.C07
