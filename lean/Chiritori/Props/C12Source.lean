import Chiritori.Props.C12
import Chiritori.Lemmas.Koff
import Chiritori.Lemmas.C14Full
import Chiritori.Lemmas.FindersIntro
import Chiritori.Lemmas.Remove
/-
  C12: the two numbers the block indent remover measures in the text after removal are what the property names -
  the column of the opening tag in the source, and the indentation of the first inner line.
-/
namespace Chiritori.Props.C12
open Chiritori Chiritori.Spec

/-- a kept source byte stands, in the text after removal, at its offset -/
theorem kept_at (ext : List Rng) (b : Bytes) (i : Nat) (x : ABy) (hb : b[i]? = some x) (hk : inAny ext i = false) :
    (minusRanges b ext)[koffTo ext b i]? = some x := by
  rw [minusRanges_eq_keptOf]
  have hlt := lt_of_getElem?_some _ _ _ hb
  have hsplit : b.zipIdx = b.zipIdx.take i ++ (x, i) :: b.zipIdx.drop (i + 1) := by
    have h1 : b.zipIdx[i]? = some (x, i) := by rw [List.getElem?_zipIdx, hb]; simp
    have hlt' : i < b.zipIdx.length := by simpa using hlt
    have := List.getElem_of_getElem? h1
    obtain ⟨_, h2⟩ := this
    conv => lhs; rw [← List.take_append_drop i b.zipIdx, List.drop_eq_getElem_cons hlt', h2]
  have hk' : (fun y : ABy × Nat => !inAny ext y.2) (x, i) = true := by simp [hk]
  have : keptOf ext b.zipIdx = keptOf ext (b.zipIdx.take i) ++ x :: keptOf ext (b.zipIdx.drop (i + 1)) := by
    conv => lhs; rw [hsplit]
    unfold keptOf
    rw [List.filter_append, List.filter_cons_of_pos (by simpa using hk), List.map_append, List.map_cons]
  rw [this]
  have hlen : (keptOf ext (b.zipIdx.take i)).length = koffTo ext b i := by
    unfold keptOf koffTo koff; simp
  rw [List.getElem?_append_right (by omega), hlen, Nat.sub_self]
  rfl

/-- the tag column, measured at the seam in the text after removal, is the tag's column in the source: `a` is where
    the opening tag starts, `u` the start of its line; the line break before `u` and the blank bytes between `u` and `a`
    are kept, and that line break is not the first byte of the text after removal (the known finding D11 is that
    excluded case) -/
theorem tagColumn_source (X : List Rng) (S : Bytes) (a u : Nat) (hu : 0 < u) (hua : u ≤ a) (ha : a ≤ S.length)
    (hnl : S[u - 1]? = some NL) (hblank : ∀ i, u ≤ i → i < a → ∃ x, S[i]? = some x ∧ isSkipByte x)
    (hkept : ∀ i, u - 1 ≤ i → i < a → inAny X i = false) (hpos : 0 < koffTo X S (u - 1)) :
    tagColumn (minusRanges S X) (koffTo X S a) = a - u := by
  have hoff : ∀ k, k ≤ a - (u - 1) → koffTo X S (u - 1 + k) = koffTo X S (u - 1) + k := by
    intro k hk
    exact koffTo_keep X S (u - 1) k (by omega) (fun i h1 h2 => hkept i h1 (by omega))
  have hA : koffTo X S a = koffTo X S (u - 1) + (a - (u - 1)) := by
    have := hoff (a - (u - 1)) (Nat.le_refl _)
    rwa [show u - 1 + (a - (u - 1)) = a by omega] at this
  have hK : ∀ k, k < a - (u - 1) → (minusRanges S X)[koffTo X S (u - 1) + k]? = S[u - 1 + k]? := by
    intro k hk
    have hlt : u - 1 + k < S.length := by omega
    rw [← hoff k (by omega)]
    rw [List.getElem?_eq_getElem hlt]
    exact kept_at X S (u - 1 + k) _ (List.getElem?_eq_getElem hlt) (hkept _ (by omega) (by omega))
  have hlenK : koffTo X S a ≤ (minusRanges S X).length := by
    rw [minusRanges_eq_keptOf]
    have : (keptOf X S.zipIdx).length = koffTo X S S.length := by
      unfold keptOf koffTo koff
      rw [List.length_map, List.take_of_length_le (by simp)]
    rw [this]
    exact koffTo_mono X S a S.length ha
  have hfind : findPrevLB (minusRanges S X) (koffTo X S a) true = some (koffTo X S (u - 1)) := by
    apply findPrevLB_intro _ _ _ true hpos (by omega) hlenK
    · intro i h1 h2
      have := hK (i - koffTo X S (u - 1)) (by omega)
      rw [show koffTo X S (u - 1) + (i - koffTo X S (u - 1)) = i by omega] at this
      rw [this]
      exact hblank _ (by omega) (by omega)
    · have := hK 0 (by omega)
      simpa [hnl] using this
  unfold tagColumn
  rw [hfind]
  simp only
  omega

/-- the other number: the indentation of the first inner line `cur` - the distance from its start to its first byte that
    is neither a space nor a tab (again unless the line break before it is byte 0 of the text after removal) -/
theorem getIndentLen_firstLine (b : Bytes) (cur e : Nat) (h1 : 1 < cur) (hle : cur ≤ b.length)
    (hnl : b[cur - 1]? = some NL) (he : findNextChar b cur = some e) : getIndentLen b cur = e - cur := by
  unfold getIndentLen
  rw [findPrevLB_intro b cur (cur - 1) false (by omega) (by omega) hle (fun i h2 h3 => by omega) hnl]
  simp only
  rw [show cur - 1 + 1 = cur by omega, he]
  simp only
  omega

/-- what a line keeps: with `w` leading blanks, tag column `t` and first-line indentation `f`, deleting
    `lineRange ls (ls + w) t (f - t)` leaves `w` blanks if `w ≤ t`, else `max (w - (f - t)) t` -/
theorem surviving_indent (ls w t f : Nat) :
    w - ((lineRange ls (ls + w) t (f - t)).2 - (lineRange ls (ls + w) t (f - t)).1) =
      if w ≤ t then w else max (w - (f - t)) t := by
  have := (lineRange_arith ls (ls + w) t (f - t) (by omega)).2
  rw [this, show ls + w - ls = w by omega]
  exact dedent_formula w t (f - t)

/-- the seam positions handed to the formatter are the offsets, in the text after removal, of the places where the
    markers start in the source - for the head seam of an unwrapped block, the start of its opening tag -/
theorem positions_are_offsets (src ds de : List Char) (cfg : Cfg) (hde : de ≠ []) :
    positions (buildRemoveMarker cfg (bytesOf src) (parseSource src ds de)) 0 =
      (buildRemoveMarker cfg (bytesOf src) (parseSource src ds de)).map
        fun m => koffTo (extentsOfSource src ds de cfg) (bytesOf src) m.start := by
  obtain ⟨hs, hcov⟩ := buildRemoveMarker_spec src ds de cfg hde
  exact positions_koffTo _ (bytesOf src) _ 0 0 (blen src) hs (by simp)
    (fun i _ => (hcov i).symm) (by simp [koffTo_zero])

example : tagColumn (bytesOf "a\n  \n      x".toList) 4 = 2 := by decide +kernel
example : getIndentLen (bytesOf "a\n  \n      x".toList) 5 = 6 := by decide +kernel

end Chiritori.Props.C12
