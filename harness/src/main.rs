// Correspondence harness: runs the real chiritori code in-process, one request per line.
//
// Request (tab separated):
//   op  src  ds  de  tl  rm  now  off  targets  args
// strings are hex-encoded UTF-8; now = "<unix secs>[.<nanos>]"; targets = "-" or comma list of x<hex>;
// args = "-" or comma list of integers (meaning depends on op).
// Reply: "ok\t<payload>" or "panic\t<class>\t<hex message>".
use chiritori::chiritori::*;
use chiritori::code::formatter::{self, BlockFormatter, Formatter};
use chiritori::code::remover::removal_evaluator::{
    marker_evaluator::MarkerEvaluator, time_limited_evaluator::TimeLimitedEvaluator,
    RemovalEvaluator,
};
use chiritori::code::utils::{char_pos_finder, line_break_pos_finder, line_map};
use chiritori::{element_parser, parser, tokenizer};
use chrono::TimeZone;
use std::collections::HashSet;
use std::io::{BufRead, Write};
use std::panic;
use std::rc::Rc;

fn unhex(s: &str) -> String {
    let b: Vec<u8> = (0..s.len() / 2)
        .map(|i| u8::from_str_radix(&s[2 * i..2 * i + 2], 16).unwrap())
        .collect();
    String::from_utf8(b).expect("request is not UTF-8")
}

fn hex(s: &str) -> String {
    let mut o = String::with_capacity(s.len() * 2);
    for b in s.as_bytes() {
        o.push_str(&format!("{:02x}", b));
    }
    o
}

struct Req {
    op: String,
    src: String,
    ds: String,
    de: String,
    tl: String,
    rm: String,
    now: (i64, u32),
    off: String,
    targets: Vec<String>,
    args: Vec<i64>,
}

fn parse_req(line: &str) -> Req {
    let f: Vec<&str> = line.split('\t').collect();
    let now = {
        let mut it = f[6].splitn(2, '.');
        let s: i64 = it.next().unwrap().parse().unwrap();
        let n: u32 = it.next().map(|x| x.parse().unwrap()).unwrap_or(0);
        (s, n)
    };
    Req {
        op: f[0].to_string(),
        src: unhex(f[1]),
        ds: unhex(f[2]),
        de: unhex(f[3]),
        tl: unhex(f[4]),
        rm: unhex(f[5]),
        now,
        off: unhex(f[7]),
        targets: if f[8] == "-" {
            vec![]
        } else {
            f[8].split(',').map(|t| unhex(&t[1..])).collect()
        },
        args: if f[9] == "-" {
            vec![]
        } else {
            f[9].split(',').map(|t| t.parse().unwrap()).collect()
        },
    }
}

fn cfg(r: &Req) -> ChiritoriConfiguration {
    ChiritoriConfiguration {
        time_limited_configuration: TimeLimitedConfiguration {
            tag_name: r.tl.clone(),
            time_offset: r.off.clone(),
            current: chrono::Local.timestamp_opt(r.now.0, r.now.1).unwrap(),
        },
        removal_marker_configuration: RemovalMarkerConfiguration {
            tag_name: r.rm.clone(),
            targets: r.targets.iter().cloned().collect::<HashSet<_>>(),
        },
    }
}

fn opt(p: &Option<usize>) -> String {
    match p {
        Some(v) => v.to_string(),
        None => "-".to_string(),
    }
}

fn el_str(e: &Option<element_parser::Element>) -> String {
    match e {
        None => "-".to_string(),
        Some(e) => {
            let mut s = format!("n{}", hex(e.name));
            for a in &e.attrs {
                s.push(';');
                s.push_str(&hex(a.name));
                if let Some(v) = a.value {
                    s.push('=');
                    s.push_str(&hex(v));
                }
            }
            s
        }
    }
}

fn tree_str(parts: &[parser::ContentPart], out: &mut String) {
    for p in parts {
        match p {
            parser::ContentPart::Text(t) => {
                out.push_str(&format!("T{} ", t.token.byte_start));
            }
            parser::ContentPart::Element(e) => {
                out.push_str(&format!(
                    "E{},{}( ",
                    e.start_token.byte_start, e.end_token.byte_start
                ));
                tree_str(&e.children, out);
                out.push_str(") ");
            }
        }
    }
}

fn seam_formatter(name: &str) -> Box<dyn Formatter> {
    match name {
        "indent" => Box::new(formatter::indent_remover::IndentRemover {}),
        "empty" => Box::new(formatter::empty_line_remover::EmptyLineRemover {}),
        "prev" => Box::new(formatter::prev_line_break_remover::PrevLineBreakRemover {}),
        "next" => Box::new(formatter::next_line_break_remover::NextLineBreakRemover {}),
        _ => panic!("bad formatter"),
    }
}

fn handle(r: &Req) -> String {
    let delims = (r.ds.clone(), r.de.clone());
    match r.op.as_str() {
        "clean" => hex(&clean(Rc::new(r.src.clone()), delims, cfg(r))),
        "list:json" => hex(&list(Rc::new(r.src.clone()), delims, cfg(r), ListFormat::JSON).unwrap()),
        "list:pretty" => {
            hex(&list(Rc::new(r.src.clone()), delims, cfg(r), ListFormat::PrettyString).unwrap())
        }
        "list_all:json" => {
            hex(&list_all(Rc::new(r.src.clone()), delims, cfg(r), ListFormat::JSON).unwrap())
        }
        "list_all:pretty" => hex(
            &list_all(Rc::new(r.src.clone()), delims, cfg(r), ListFormat::PrettyString).unwrap(),
        ),
        "tokenize" => {
            let toks = tokenizer::tokenize(&r.src, &r.ds, &r.de);
            toks.iter()
                .map(|t| {
                    format!(
                        "{}:{}:{}:{}:{}:{}",
                        if matches!(t.kind, tokenizer::TokenKind::Element(_)) { "E" } else { "T" },
                        t.start,
                        t.end,
                        t.byte_start,
                        t.byte_end,
                        hex(t.value)
                    )
                })
                .collect::<Vec<_>>()
                .join(" ")
        }
        "elparse" => {
            let toks = tokenizer::tokenize(&r.src, &r.ds, &r.de);
            toks.iter()
                .map(|t| el_str(&element_parser::parse(t)))
                .collect::<Vec<_>>()
                .join(" ")
        }
        "tree" => {
            let toks = tokenizer::tokenize(&r.src, &r.ds, &r.de);
            let parsed = parser::parse(&toks);
            let mut out = String::new();
            tree_str(&parsed, &mut out);
            out
        }
        "time" => {
            // src = value of the `to` attribute; args[0]: 0 = attribute absent, 1 = valueless, 2 = value
            let ev = TimeLimitedEvaluator {
                current_time: chrono::Local.timestamp_opt(r.now.0, r.now.1).unwrap(),
                time_offset: r.off.clone(),
            };
            let attrs = match r.args.first().copied().unwrap_or(2) {
                0 => vec![],
                1 => vec![element_parser::Attribute { name: "to", value: None }],
                _ => vec![element_parser::Attribute { name: "to", value: Some(&r.src) }],
            };
            let el = element_parser::Element { name: "tl", attrs };
            ev.is_removal(&el).to_string()
        }
        "marker" => {
            // src = value of the `name` attribute; args[0] as for `time`
            let ev = MarkerEvaluator {
                marker_removal_names: r.targets.iter().cloned().collect(),
            };
            let attrs = match r.args.first().copied().unwrap_or(2) {
                0 => vec![],
                1 => vec![element_parser::Attribute { name: "name", value: None }],
                _ => vec![element_parser::Attribute { name: "name", value: Some(&r.src) }],
            };
            let el = element_parser::Element { name: "rm", attrs };
            ev.is_removal(&el).to_string()
        }
        "trace" => {
            let (markers, all, removed, pos) = verif_trace(Rc::new(r.src.clone()), delims, cfg(r));
            format!(
                "{}|{}|{}|{}",
                markers
                    .iter()
                    .map(|(r, p)| format!("{}-{}:{}", r.start, r.end, opt(p)))
                    .collect::<Vec<_>>()
                    .join(" "),
                all.iter()
                    .map(|((r, p), b)| format!(
                        "{}-{}:{}:{}",
                        r.start,
                        r.end,
                        opt(p),
                        if *b { "R" } else { "P" }
                    ))
                    .collect::<Vec<_>>()
                    .join(" "),
                hex(&removed),
                pos.iter()
                    .map(|(a, p)| format!("{}:{}", a, opt(p)))
                    .collect::<Vec<_>>()
                    .join(" ")
            )
        }
        "fmt:indent" | "fmt:empty" | "fmt:prev" | "fmt:next" => {
            let f = seam_formatter(&r.op[4..]);
            let (s, e) = f.format(&r.src, r.args[0] as usize);
            format!("{}:{}", s, e)
        }
        "fmt:block" => {
            let f = formatter::block_indent_remover::BlockIndentRemover {};
            f.format(&r.src, r.args[0] as usize, r.args[1] as usize)
                .iter()
                .map(|r| format!("{}-{}", r.start, r.end))
                .collect::<Vec<_>>()
                .join(" ")
        }
        "format" => {
            // args: pos, pair (-1 = none), pos, pair, ...
            let pos: Vec<(usize, Option<usize>)> = r
                .args
                .chunks(2)
                .map(|c| (c[0] as usize, if c[1] < 0 { None } else { Some(c[1] as usize) }))
                .collect();
            let fs: Vec<Box<dyn Formatter>> = vec![
                seam_formatter("indent"),
                seam_formatter("empty"),
                seam_formatter("prev"),
                seam_formatter("next"),
            ];
            let bs: Vec<Box<dyn BlockFormatter>> =
                vec![Box::new(formatter::block_indent_remover::BlockIndentRemover {})];
            hex(&formatter::format(&r.src, &pos, &fs, &bs))
        }
        "findnext" | "findprev" => {
            let b = r.src.as_bytes();
            let pause = r.args[1] != 0;
            let v = if r.op == "findnext" {
                line_break_pos_finder::find_next_line_break_pos(&r.src, b, r.args[0] as usize, pause)
            } else {
                line_break_pos_finder::find_prev_line_break_pos(&r.src, b, r.args[0] as usize, pause)
            };
            opt(&v)
        }
        "findchar" => opt(&char_pos_finder::find_next_char_pos(
            &r.src,
            r.src.as_bytes(),
            r.args[0] as usize,
        )),
        "item" => {
            // args: start, end, is_removal, coloring, with_lines
            let start = r.args[0] as usize;
            let end = r.args[1] as usize;
            let lm = line_map::build_line_map(&r.src);
            let lr = if r.args[4] != 0 && end > start {
                Some((line_map::find_line(&lm, start), line_map::find_line(&lm, end - 1)))
            } else {
                None
            };
            hex(&chiritori::code::list::build_pretty_string_item(
                &r.src,
                start,
                end,
                r.args[2] != 0,
                r.args[3] != 0,
                lr,
            ))
        }
        "linemap" => {
            let lm = line_map::build_line_map(&r.src);
            format!(
                "{}|{}",
                lm.iter().map(|v| v.to_string()).collect::<Vec<_>>().join(" "),
                r.args
                    .iter()
                    .map(|n| line_map::find_line(&lm, *n as usize).to_string())
                    .collect::<Vec<_>>()
                    .join(" ")
            )
        }
        _ => "bad-op".to_string(),
    }
}

fn classify(msg: &str) -> &'static str {
    if msg.contains("is not a char boundary") {
        "slice-boundary"
    } else if msg.contains("index out of bounds")
        || msg.contains("out of range for")
        || msg.contains("out of bounds of")
        || msg.contains("slice index starts at")
        || msg.contains("range end index")
        || msg.contains("range start index")
    {
        "index-oob"
    } else if msg.contains("subtract with overflow") {
        "sub-underflow"
    } else if msg.contains("Invalid byte position") {
        "explicit"
    } else if msg.contains("`Option::unwrap()` on a `None`") {
        "unwrap-none"
    } else {
        "other"
    }
}

fn main() {
    panic::set_hook(Box::new(|_| {}));
    let stdin = std::io::stdin();
    let stdout = std::io::stdout();
    let mut out = std::io::BufWriter::new(stdout.lock());
    for line in stdin.lock().lines() {
        let line = line.unwrap();
        if line.is_empty() {
            continue;
        }
        let res = panic::catch_unwind(|| {
            let r = parse_req(&line);
            handle(&r)
        });
        match res {
            Ok(x) => writeln!(out, "ok\t{}", x).unwrap(),
            Err(e) => {
                let msg = if let Some(s) = e.downcast_ref::<String>() {
                    s.clone()
                } else if let Some(s) = e.downcast_ref::<&str>() {
                    s.to_string()
                } else {
                    "?".into()
                };
                writeln!(out, "panic\t{}\t{}", classify(&msg), hex(&msg)).unwrap()
            }
        }
    }
    out.flush().unwrap();
}
