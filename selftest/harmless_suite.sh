#!/bin/sh
# harmless_suite.sh [pattern]: apply every behaviour-preserving rewrite under selftest/harmless/ to /repo in turn, run
# all twenty quick checks, undo.  Every check must stay quiet (exit 0, no VIOLATION line): a line ALARM here is a false
# alarm of the machinery.  /repo must be clean; do not run other checks meanwhile.
cd /repo && git diff --quiet || { echo "/repo not clean"; exit 2; }
for f in /verif/selftest/harmless/${1:-H}*.diff; do
  n=$(basename $f .diff)
  git -C /repo apply "$f" || { echo "$n: PATCH-DOES-NOT-APPLY"; continue; }
  # build once, then run the twenty checks four at a time
  (cd /verif && ./check C07 --tier quick > /tmp/harmless.$n.C07.out 2>&1; echo $? > /tmp/harmless.$n.C07.rc)
  printf '%s\n' C01 C02 C03 C04 C05 C06 C08 C09 C10 C11 C12 C13 C14 C15 C16 C17 C18 C19 C20 |
    xargs -P 4 -I{} sh -c "cd /verif && ./check {} --tier quick > /tmp/harmless.$n.{}.out 2>&1; echo \$? > /tmp/harmless.$n.{}.rc"
  bad=""
  for p in C01 C02 C03 C04 C05 C06 C07 C08 C09 C10 C11 C12 C13 C14 C15 C16 C17 C18 C19 C20; do
    rc=$(cat /tmp/harmless.$n.$p.rc)
    if [ "$rc" != "0" ] || grep -q "^VIOLATION" /tmp/harmless.$n.$p.out; then
      bad="$bad $p(rc=$rc)"
      grep -E "^VIOLATION|Traceback|rror" /tmp/harmless.$n.$p.out | head -3 | cut -c1-200 | sed "s/^/    $n $p: /"
    fi
    rm -f /tmp/harmless.$n.$p.out /tmp/harmless.$n.$p.rc
  done
  git -C /repo checkout -- .
  if [ -z "$bad" ]; then echo "$n: quiet (20/20 checks exit 0)"; else echo "$n: ALARM$bad"; fi
done
echo "== done"
