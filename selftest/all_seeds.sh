#!/bin/sh
# run every delivered seed: confirm in its worktree, then run the property's quick check against it
for d in $(ls -d /tmp/wt/A*/out/C* | grep -v "$SKIP"); do
  P=$(basename $d); WT=$(dirname $(dirname $d))
  echo "######## $P ($WT)"
  /verif/selftest/confirm_seed.sh $WT $P 2>&1 | grep -E "^==|test result|exit=|error" 
  /verif/selftest/run_seed.sh $d/patch.diff $P
done
