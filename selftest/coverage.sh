#!/bin/sh
# coverage.sh [quick|thorough]: line / branch coverage of /repo/chiritori under the request streams of all twenty
# checks (corpus + generated + shared pool), measured with an instrumented copy of the harness (nightly toolchain,
# -C instrument-coverage -Z coverage-options=condition).  Scratch in $COV (default /tmp/verif-cov), removed at
# the end; nothing under /repo or /verif is written except selftest/last_coverage.txt.
# Not a registered check: it says how much of the implementation the correspondence exercises, nothing more.
set -e
TIER=${1:-quick}
COV=${COV:-/tmp/verif-cov}
BIN=$(dirname $(rustup +nightly which rustc))/../lib/rustlib/x86_64-unknown-linux-gnu/bin
rm -rf $COV && mkdir -p $COV/repo
git -C /repo diff --quiet || echo "note: /repo has uncommitted changes; measuring HEAD"
git -C /repo archive HEAD | tar -x -C $COV/repo
cp -r /verif/harness $COV/harness
sed -i "s#/repo/chiritori#$COV/repo/chiritori#" $COV/harness/Cargo.toml
cat > $COV/dump.py <<PY
import sys, random
sys.path.insert(0, '/verif')
from checklib import engine, registry, common
from checklib.engine import Case
tier, seed = sys.argv[1], 20260930
out = open('$COV/reqs.txt', 'w')
for i in range(1, 21):
    pid = 'C%02d' % i
    prop = registry.get(pid)
    cases = []
    for fn, body in engine.load_corpus(pid):
        cases.extend(prop.corpus_cases(fn, body))
    cases.extend(prop.cases(random.Random(seed), tier))
    cases.extend(common.cases_for(prop, seed, tier, Case))
    k = 0
    for c in cases:
        for l in c.reqs:
            out.write(l + '\n'); k += 1
    print(pid, 'cases', len(cases), 'requests', k)
PY
(cd /verif && python3 $COV/dump.py $TIER) > $COV/summary.txt
(cd $COV/harness && CARGO_NET_OFFLINE=true RUSTFLAGS="-C instrument-coverage -Z coverage-options=condition" \
  CARGO_TARGET_DIR=$COV/target cargo +nightly build --offline >/dev/null 2>&1)
(cd $COV && split -n l/16 reqs.txt part- && for f in part-*; do
   LLVM_PROFILE_FILE=$COV/$f.profraw ./target/debug/verif-harness < $f > /dev/null 2>/dev/null & done; wait)
$BIN/llvm-profdata merge -sparse $COV/*.profraw -o $COV/all.profdata
{
  echo "# tier=$TIER repo=$(git -C /repo rev-parse --short HEAD)"; cat $COV/summary.txt; echo
  $BIN/llvm-cov report $COV/target/debug/verif-harness -instr-profile=$COV/all.profdata \
    --ignore-filename-regex='(registry|rustc|harness|rustup)' | sed "s#${COV#/}/repo/##" |
    awk 'NF>5 && $1!="Filename"{printf "%-85s lines %5s missed %4s   branches %4s missed %3s\n", $1, $(NF-5), $(NF-4), $(NF-2), $(NF-1)}'
  echo; echo "# lines never executed / branch sides never taken"
  $BIN/llvm-cov show $COV/target/debug/verif-harness -instr-profile=$COV/all.profdata \
    --ignore-filename-regex='(registry|rustc|harness|rustup)' --show-branches=count |
    grep -E "^/|^\s+[0-9]+\|\s+0\||Branch \(.*(True: 0|False: 0)" | sed "s#$COV/repo/##"
} > /verif/selftest/last_coverage.txt
rm -rf $COV
tail -n +1 /verif/selftest/last_coverage.txt | head -60
