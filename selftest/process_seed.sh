#!/bin/sh
# process_seed.sh <worktree> <label> <Cxx> [extra Cyy ...]: confirm a sub-agent's seeded change in its scratch
# worktree, store it under seeded/<Cxx>-<label>/, run the quick check(s) of the property against it in /repo.
WT=$1; L=$2; P=$3; shift 3
D=/verif/seeded/$P-$L
LOG=$(mktemp)
sh /verif/selftest/confirm_seed.sh "$WT" "$P" > "$LOG" 2>&1
echo "--- confirm $P-$L"
awk '/^== /{print} /^test result/{print} /demo script exit/{print} /error(\[|:)/{print}' "$LOG" | cut -c1-160
mkdir -p "$D"; cp "$WT/out/$P/patch.diff" "$D/"; rm -rf "$D/demo"; cp -r "$WT/out/$P/demo" "$D/demo"; cp "$WT/out/$P/notes.md" "$D/notes.md" 2>/dev/null
cp "$LOG" "$D/confirm.log"; rm -f "$LOG"
echo "--- checks"
sh /verif/selftest/run_seed.sh "$D/patch.diff" $P "$@" 2>&1 | grep -v "^WARNING" | cut -c1-260
