#!/bin/sh
# confirm_seed.sh <worktree> <Cxx>: in the scratch worktree, check that the seeded change compiles, keeps the
# test suite green, and that the demonstration fails with it and passes without it.
set -u
WT=$1; P=$2
cd "$WT" || exit 2
git checkout -q -- . ; rm -f chiritori/tests/seed_demo_*.rs
export CARGO_NET_OFFLINE=true
echo "== apply patch"; git apply "out/$P/patch.diff" || exit 3
echo "== suite with patch"; cargo test --workspace --offline 2>&1 | grep -E "^test result|FAILED|error(\[|:)" 
mkdir -p chiritori/tests
SH=""
for f in out/$P/demo/*; do
  case "$f" in
    *.rs) cp "$f" "chiritori/tests/seed_demo_$(basename $f)";;
    *.sh) SH="$f";;
  esac
done
run_demo() {
  if [ -n "$SH" ]; then cargo build --offline -p chiritori-cli 2>&1 | tail -1; if head -1 "$SH" | grep -q bash; then bash "$SH"; else sh "$SH"; fi; echo "demo script exit=$?";
  else for f in chiritori/tests/seed_demo_*.rs; do n=$(basename $f .rs); cargo test -p chiritori --test $n --offline 2>&1 | grep -E "^test result|error(\[|:)"; done; fi
}
echo "== demo WITH patch (must fail)"; run_demo
git checkout -q -- chiritori/src chiritori-cli/src 2>/dev/null
echo "== demo WITHOUT patch (must pass)"; run_demo
rm -f chiritori/tests/seed_demo_*.rs; git checkout -q -- . 
echo "== done"
