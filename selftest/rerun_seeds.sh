#!/bin/sh
# rerun_seeds.sh [pattern]: apply every stored seeded change to /repo in turn, run the quick check of its property,
# undo. Prints one line per seed: DETECTED / MISSED.  /repo must be clean; do not run other checks meanwhile.
cd /repo && git diff --quiet || { echo "/repo not clean"; exit 2; }
for d in /verif/seeded/${1:-C}*; do
  n=$(basename $d); P=${n%%-*}
  git -C /repo apply "$d/patch.diff" || { echo "$n: PATCH-DOES-NOT-APPLY"; continue; }
  out=$(cd /verif && ./check $P --tier quick 2>&1)
  git -C /repo checkout -- .
  if echo "$out" | grep -q "^VIOLATION property=$P"; then
    if echo "$out" | grep -q "no-failing-input-found"; then echo "$n: DETECTED (no failing input)"; else echo "$n: DETECTED"; fi
  else echo "$n: MISSED"; fi
done
echo "== done"
