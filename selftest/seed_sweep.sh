#!/bin/sh
# run every quick check under several seeds on the unchanged tree; any VIOLATION here is a false alarm (or a new finding)
cd /verif
for seed in ${SEEDS:-2 3 4}; do
  for p in C01 C02 C03 C04 C05 C06 C07 C08 C09 C10 C11 C12 C13 C14 C15 C16 C17 C18 C19 C20; do
    out=$(VERIF_SEED=$seed ./check $p --tier quick 2>&1 | grep -E "VIOLATION|Traceback|Error" | cut -c1-160)
    echo "seed=$seed $p ${out:-ok}"
  done
done
echo "== done"
