#!/bin/sh
# run_seed.sh <patch.diff> <Cxx> [more Cxx...]: apply a seeded change to /repo, run the quick checks, undo it.
PATCH=$1; shift
cd /repo && git diff --quiet || { echo "/repo not clean"; exit 2; }
git -C /repo apply "$PATCH" || exit 3
for P in "$@"; do
  echo "=== $P"; (cd /verif && ./check $P --tier quick 2>&1 | grep -E "VIOLATION|KNOWN-FINDING|Traceback|Error" | cut -c1-300); echo "rc=$?"
done
git -C /repo checkout -- .
