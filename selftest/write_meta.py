#!/usr/bin/env python3
"""write_meta.py <Cxx-label> <result> [first_attempt]: writes seeded/<Cxx-label>/meta.json"""
import json, os, sys
d = sys.argv[1]; result = sys.argv[2]; first = sys.argv[3] if len(sys.argv) > 3 else None
base = os.path.join("/verif/seeded", d)
notes = open(os.path.join(base, "notes.md")).read() if os.path.exists(os.path.join(base, "notes.md")) else ""
meta = {
    "property": d.split("-")[0],
    "source": "independent sub-agent given only the property text and a scratch worktree (no access to /verif)",
    "breaks": d.split("-")[0],
    "needs_to_manifest": notes[:900],
    "confirmed": "selftest/confirm_seed.sh (log: confirm.log): patch applies to a scratch worktree, cargo test --workspace passes, the demonstration fails with the patch and passes without it",
    "run_against_checks": "selftest/run_seed.sh <patch> %s (git -C /repo apply; ./check %s --tier quick; git -C /repo checkout -- .)" % (d.split("-")[0], d.split("-")[0]),
    "result": result,
}
if first:
    meta["first_attempt"] = first
json.dump(meta, open(os.path.join(base, "meta.json"), "w"), indent=1, ensure_ascii=False)
