#!/usr/bin/env python3
"""mutate.py [--files f1,f2] [--limit N] [--jobs J]: mechanical mutation sweep.

For every syntactic mutant of the non-test code of /repo/chiritori/src (one token changed: a comparison, a boundary, an
arithmetic operator or constant, a logical connective, min/max, a byte literal, start/end, a dropped statement) that still
compiles and keeps the crate's unit tests green, the request streams of all twenty checks (quick tier) are replayed through
a harness built from the mutated copy and compared with the replies of the unchanged code.  A reply that differs is a
difference some check's correspondence sees (the model agrees with the unchanged code on every one of these requests); a
mutant without any difference is either equivalent or a gap of all generators at once, and is listed for inspection.

Scratch: $MUT (default /tmp/verif-mut), outside /repo and /verif.  Output: selftest/mutation/last_sweep.jsonl and
last_sweep.txt.  Not a registered check."""
import argparse, hashlib, json, os, random, re, shutil, subprocess, sys, time

MUT = os.environ.get("MUT", "/tmp/verif-mut")
SRC = "chiritori/src"
ENV = dict(os.environ, CARGO_NET_OFFLINE="true", CARGO_TARGET_DIR=os.path.join(MUT, "target"))

def sh(cmd, cwd=None, timeout=None, env=ENV, inp=None):
    import signal
    p = subprocess.Popen(cmd, cwd=cwd, env=env, stdout=subprocess.PIPE, stderr=subprocess.STDOUT, start_new_session=True)
    try:
        out, _ = p.communicate(timeout=timeout)
        return p.returncode, out
    except subprocess.TimeoutExpired:
        try:
            os.killpg(p.pid, signal.SIGKILL)   # the hanging test binary is a grandchild
        except ProcessLookupError:
            pass
        p.wait()
        return 124, b"timeout"

RULES = [
    (r" >= ", [" > ", " == "]), (r" <= ", [" < ", " == "]),
    (r"(?<![-=]) > (?!=)", [" >= ", " < "]), (r" < (?!=)", [" <= ", " > "]),
    (r" == ", [" != "]), (r" != ", [" == "]),
    (r" && ", [" || "]), (r" \|\| ", [" && "]),
    (r" \+ 1\b", [" + 0", " + 2", " - 1"]), (r" - 1\b", [" - 0", " - 2", " + 1"]),
    (r" \+= 1\b", [" += 2", " += 0"]), (r" -= 1\b", [" -= 2"]),
    (r"(?<=\w) \+ (?=[a-z_(])", [" - "]), (r"(?<=[\w)]) - (?=[a-z_(])", [" + "]),
    (r"\.min\(", [".max("]), (r"\.max\(", [".min("]), (r"cmp::min\(", ["cmp::max("]), (r"cmp::max\(", ["cmp::min("]),
    (r"\btrue\b", ["false"]), (r"\bfalse\b", ["true"]),
    (r"\.is_some\(\)", [".is_none()"]), (r"\.is_none\(\)", [".is_some()"]),
    (r"!(?=[a-z_]+[.(])", [""]), (r"(?<=if )(?=[a-z_]+\.is_empty\(\))", ["!"]),
    (r"\.start\b", [".end"]), (r"\.end\b", [".start"]),
    (r"byte_start\b", ["byte_end"]), (r"byte_end\b", ["byte_start"]),
    (r"b' '", [r"b'\t'"]), (r"b'\\t'", ["b' '"]), (r"b'\\n'", ["b' '", r"b'\r'"]),
    (r"(?<!b)' '", [r"'\t'"]), (r"(?<!b)'\\n'", ["' '"]), (r"(?<!b)'='", ["':'"]), (r"(?<!b)'\"'", [r"'\''"]),
    (r"\b0\b(?!\.)", ["1"]), (r"(?<![\w.+-] )\b1\b(?!\.)", ["0", "2"]), (r"\b2\b(?!\.)", ["1", "3"]),
    (r"\.rev\(\)", [""]), (r"\.skip\(1\)", [""]),
    (r"Some\(true\)", ["Some(false)"]), (r"\.unwrap_or\(0\)", [".unwrap_or(1)"]),
    (r"\.saturating_sub\(", [".wrapping_sub("]),
]
DROP = re.compile(r"^\s*(\w[\w.]*\.(push|push_str|extend|insert|truncate)\(.*\);|\w+ [+-]= .*;|break;|continue;)\s*$")

def mutants_of(path, text):
    cut = text.find("#[cfg(test)]")
    body = text if cut < 0 else text[:cut]
    lines = body.split("\n")
    off = 0
    for ln, line in enumerate(lines):
        code = line.split("//")[0]
        stripped = code.strip()
        skip = (not stripped or stripped.startswith(("use ", "pub mod", "mod ", "#[", "///", "//", "const ", "extern ")) or
                "expect(" in code or "panic!(" in code or "println!(" in code)
        if not skip:
            for pat, reps in RULES:
                for m in re.finditer(pat, code):
                    # not inside a string literal
                    if code[:m.start()].count('"') % 2 == 1:
                        continue
                    for r in reps:
                        new = line[:m.start()] + r + line[m.end():]
                        if new != line:
                            yield (ln + 1, m.start(), pat, r, off + m.start(), off + m.end(), r)
            if DROP.match(code):
                yield (ln + 1, 0, "drop-statement", "", off, off + len(line), "")
        off += len(line) + 1

def main():
    ap = argparse.ArgumentParser()
    ap.add_argument("--files", default="")
    ap.add_argument("--limit", type=int, default=0)
    ap.add_argument("--jobs", type=int, default=12)
    ap.add_argument("--tier", default="quick")
    ap.add_argument("--resume", action="store_true")
    a = ap.parse_args()
    out_dir = "/verif/selftest/mutation"
    if not (a.resume and os.path.exists(os.path.join(MUT, "base.sha"))):
        shutil.rmtree(MUT, ignore_errors=True)
        os.makedirs(os.path.join(MUT, "repo"))
        subprocess.run("git -C /repo archive HEAD | tar -x -C %s/repo" % MUT, shell=True, check=True)
        shutil.copytree("/verif/harness", os.path.join(MUT, "harness"))
        ct = open(os.path.join(MUT, "harness", "Cargo.toml")).read().replace("/repo/chiritori", MUT + "/repo/chiritori")
        open(os.path.join(MUT, "harness", "Cargo.toml"), "w").write(ct)
        # request streams of all checks
        dump = ("import sys, random\nsys.path.insert(0, '/verif')\nfrom checklib import engine, registry, common\nfrom checklib.engine import Case\n"
                "out = open('%s/reqs.txt', 'w')\nfor i in range(1, 21):\n    pid = 'C%%02d' %% i\n    prop = registry.get(pid)\n    cases = []\n"
                "    for fn, body in engine.load_corpus(pid):\n        cases.extend(prop.corpus_cases(fn, body))\n"
                "    cases.extend(prop.cases(random.Random(20260930), '%s'))\n    cases.extend(common.cases_for(prop, 20260930, '%s', Case))\n"
                "    for c in cases:\n        for l in c.reqs:\n            out.write(l + '\\n')\n") % (MUT, a.tier, a.tier)
        open(os.path.join(MUT, "dump.py"), "w").write(dump)
        subprocess.run([sys.executable, os.path.join(MUT, "dump.py")], cwd="/verif", check=True)
        # de-duplicate requests (many checks share inputs)
        seen, uniq = set(), []
        for l in open(os.path.join(MUT, "reqs.txt")):
            h = hashlib.blake2b(l.encode(), digest_size=12).digest()
            if h not in seen:
                seen.add(h); uniq.append(l)
        random.Random(1).shuffle(uniq)
        parts = [uniq[i::a.jobs] for i in range(a.jobs)]
        for i, p in enumerate(parts):
            open(os.path.join(MUT, "part-%02d" % i), "w").write("".join(p))
        print("requests: %d unique" % len(uniq), flush=True)
        rc, o = sh(["cargo", "build", "--offline"], cwd=os.path.join(MUT, "harness"))
        assert rc == 0, o.decode()[-2000:]
        run_all(a.jobs, "base")
        open(os.path.join(MUT, "base.sha"), "w").write("ok")
    files = []
    for root, _, fs in os.walk(os.path.join(MUT, "repo", SRC)):
        for f in fs:
            if f.endswith(".rs"):
                files.append(os.path.relpath(os.path.join(root, f), os.path.join(MUT, "repo")))
    files.sort()
    if a.files:
        files = [f for f in files if any(x in f for x in a.files.split(","))]
    log = open(os.path.join(out_dir, "last_sweep.jsonl"), "a" if a.resume else "w")
    done = set()
    if a.resume:
        for l in open(os.path.join(out_dir, "last_sweep.jsonl")):
            d = json.loads(l); done.add((d["file"], d["line"], d["col"], d["to"], d["rule"]))
    n = 0
    for f in files:
        p = os.path.join(MUT, "repo", f)
        orig = open(p).read()
        for (ln, col, pat, rep, s, e, r) in list(mutants_of(f, orig)):
            if (f, ln, col, rep, pat) in done:
                continue
            if a.limit and n >= a.limit:
                break
            n += 1
            open(p, "w").write(orig[:s] + r + orig[e:])
            rec = {"file": f, "line": ln, "col": col, "rule": pat, "to": rep, "before": orig.split("\n")[ln - 1].strip(),
                   "after": (orig[:s] + r + orig[e:]).split("\n")[ln - 1].strip() if pat != "drop-statement" else "(statement dropped)"}
            t0 = time.time()
            rc, o = sh(["cargo", "build", "--offline"], cwd=os.path.join(MUT, "harness"), timeout=300)
            if rc != 0:
                rec["status"] = "does-not-compile"
            else:
                rc, o = sh(["cargo", "test", "--offline", "-p", "chiritori", "--lib"], cwd=os.path.join(MUT, "repo"), timeout=75,
                           env=dict(ENV, CARGO_TARGET_DIR=os.path.join(MUT, "target-test")))
                if rc == 124:
                    rec["status"] = "killed-by-tests(hang)"
                elif rc != 0:
                    rec["status"] = "killed-by-tests"
                else:
                    diff = run_all(a.jobs, "mut")
                    rec["status"] = "seen-by-correspondence" if diff else "NO-DIFFERENCE"
                    rec["differing_requests"] = diff
            rec["secs"] = round(time.time() - t0, 1)
            log.write(json.dumps(rec, ensure_ascii=False) + "\n"); log.flush()
            print("%-60s %4d:%-3d %-28s -> %-10s %s" % (f[-60:], ln, col, pat[:28], rep[:10], rec["status"]), flush=True)
        open(p, "w").write(orig)
    summarize(out_dir)

def run_all(jobs, tag):
    """run the harness over all parts; for tag='mut' return the number of differing replies (or -1 on hang/crash)"""
    procs = []
    for i in range(jobs):
        part = os.path.join(MUT, "part-%02d" % i)
        outp = os.path.join(MUT, "%s-%02d.out" % (tag, i))
        procs.append((subprocess.Popen([os.path.join(MUT, "target", "debug", "verif-harness")], stdin=open(part), stdout=open(outp, "w"),
                                       stderr=subprocess.DEVNULL), i))
    bad = 0
    deadline = time.time() + 120
    for p, i in procs:
        try:
            p.wait(timeout=max(1, deadline - time.time()))
        except subprocess.TimeoutExpired:
            p.kill(); bad = -1
    if tag == "base":
        return 0
    if bad:
        return -1
    diff = 0
    for i in range(jobs):
        a_ = open(os.path.join(MUT, "base-%02d.out" % i)).read().split("\n")
        b_ = open(os.path.join(MUT, "mut-%02d.out" % i)).read().split("\n")
        if len(a_) != len(b_):
            return -1
        diff += sum(1 for x, y in zip(a_, b_) if x != y)
    return diff

def summarize(out_dir):
    rows = [json.loads(l) for l in open(os.path.join(out_dir, "last_sweep.jsonl"))]
    by = {}
    for r in rows:
        by.setdefault(r["status"], []).append(r)
    with open(os.path.join(out_dir, "last_sweep.txt"), "w") as f:
        f.write("mutants: %d\n" % len(rows))
        for k, v in sorted(by.items()):
            f.write("  %-24s %d\n" % (k, len(v)))
        f.write("\nmutants that compile, pass the unit tests and change no reply on any request of any check:\n")
        for r in by.get("NO-DIFFERENCE", []):
            f.write("  %s:%d  %s   =>   %s\n" % (r["file"], r["line"], r["before"], r["after"]))
    print(open(os.path.join(out_dir, "last_sweep.txt")).read())

if __name__ == "__main__":
    main()
