#!/bin/sh
# run every thorough check once, log verdicts and times
cd /verif
for p in C01 C02 C03 C04 C05 C06 C07 C08 C09 C10 C11 C12 C13 C14 C15 C16 C17 C18 C19 C20; do
  s=$(date +%s)
  out=$(./check $p --tier thorough 2>&1 | grep -E "VIOLATION|KNOWN-FINDING|Traceback|Error" | cut -c1-160)
  e=$(date +%s)
  echo "$p $((e-s))s ${out:-ok}"
done
