from . import props_a
try:
    from . import props_b
except ImportError:
    props_b = None

def get(pid):
    for mod in (props_a, props_b):
        if mod is not None and hasattr(mod, pid):
            return getattr(mod, pid)()
    raise SystemExit("unknown property " + pid)
