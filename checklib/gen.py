"""Input generators for the correspondence check and the counter-example search.

Every random choice comes from the `random.Random` passed in, so a run replays from its seed.
"""
import zlib
import itertools

READY_T = "2000-01-01 00:00:00"
PEND_T = "2999-01-01 00:00:00"
NOW = 1577836800  # 2020-01-01T00:00:00Z

# delimiter pool: (start, end); the first entries are the ones named in the properties
DELIMS = [
    ("<", ">"), ("<!-- <", "> -->"), ("/* <", "> */"), ("// --", "-- //"), ("aab", "bba"),
    ("[[", "]]"), ("%%", "%%"), ("«", "»"), ("{{", "}}"), ("<?", "?>"), ("(*", "*)"),
    ("#[", "]"), ("/*<", ">*/"), ("⟦", "⟧"), ("-- <", ">"), ("<<", ">>"),
]
# delimiters usable for AST documents (no character shared with the document alphabet below)
SAFE_DELIMS = [
    ("<", ">"), ("<!-- <", "> -->"), ("/* <", "> */"), ("[[", "]]"), ("%%", "%%"), ("«", "»"),
    ("<?", "?>"), ("(*", "*)"), ("#[", "]"), ("/*<", ">*/"), ("⟦", "⟧"), ("<<", ">>"),
    ("@@<", ">@@"), ("<$", "$>"), ("⟪", "⟫"), ("<~", "~>"),
]
TAG_NAMES = [("tl", "rm"), ("time-limited", "removal-marker"), ("期限", "印"), ("t.l", "r+m"), ("T", "R"),
             ("Überholt", "Étiquette"), ("Ü", "Удалить")]

# the last three: characters whose code point ends in the byte of a line break / blank / tab / angle bracket
# (U+4E0A, U+010A, U+0120, U+0109, U+013C, U+013E) - a `c as u8` comparison would take them for those
WORDS = ["foo", "bar();", "x = 1", "baz", "日本語", "é;", "return", "}", "{", "if (a) {", "𝄞 y", "a_b",
         "上 Ċ", "Ġĉ z", "ļ ľ", "привет", "λόγος й"]


def atoms_for(ds, de):
    s = []
    for ch in ds + de:
        if ch not in s:
            s.append(ch)
    for w in (ds, de):
        if len(w) > 1 and w not in s:
            s.append(w)
    for a in [" ", "\n", "\t", "a", "é", "あ", "𝄞", "=", "'", '"', "/"]:
        if a not in s:
            s.append(a)
    return s


def g_atoms_exhaustive(ds, de, L, alphabet=None):
    al = alphabet or atoms_for(ds, de)
    for n in range(0, L + 1):
        for t in itertools.product(al, repeat=n):
            yield "".join(t)


def g_atoms_random(rng, ds, de, n, maxlen=24, alphabet=None):
    al = alphabet or atoms_for(ds, de)
    for _ in range(n):
        k = rng.randint(0, maxlen)
        yield "".join(rng.choice(al) for _ in range(k))


# ------------------------------------------------------------------ tags (C09)
VALUE_POOL = ["", " ", "a b", "=", "x=y", "skip", "unwrap-block", "to=", "\n", "a\nb", "it's", 'say "hi"',
              "<", "é あ", "2000-01-01 00:00:00", "name", "/", "a  b ", "\t"]
SEPS = [" ", "  ", "\n", "\n  ", " \n * ", "\n\n", " \n"]
BARE_NAMES = ["a", "skip", "unwrap-block", "x-y", "é", "to", "name", "c", "b1", "/x", "*"]


class Tag:
    """name, attrs: list of (kind, name, value, eqpad_l, eqpad_r, quote); seps: separators before each attr"""
    def __init__(self, name, attrs, seps, padl="", padr=""):
        self.name, self.attrs, self.seps, self.padl, self.padr = name, attrs, seps, padl, padr

    def body(self):
        s = self.padl + self.name
        for sep, (kind, n, v, el, er, q) in zip(self.seps, self.attrs):
            s += sep
            if kind == "bare":
                s += n
            else:
                s += n + el + "=" + er + q + v + q
        return s + self.padr

    def expected(self):
        """(name, [(attr name, value or None)]) according to the grammar; ' \\n * ' makes '*' a bare attribute"""
        out = []
        for sep, (kind, n, v, el, er, q) in zip(self.seps, self.attrs):
            for w in sep.replace("\n", " ").split(" "):
                if w:
                    out.append((w, None))
            out.append((n, None if kind == "bare" else v))
        return (self.name, out)


def g_tag(rng, name=None, nattrs=None, forbid=()):
    name = name if name is not None else rng.choice(["tl", "rm", "a", "é", "x-1", "/tl", "zz"])
    k = nattrs if nattrs is not None else rng.choice([0, 1, 1, 2, 2, 3, 4])
    attrs, seps = [], []
    for i in range(k):
        kind = rng.choice(["bare", "sq", "dq"])
        n = rng.choice(BARE_NAMES)
        if kind == "bare":
            attrs.append(("bare", n, None, "", "", ""))
        else:
            q = "'" if kind == "sq" else '"'
            v = rng.choice([x for x in VALUE_POOL if q not in x and not any(f in x for f in forbid)])
            el = rng.choice(["", "", " ", "  "])
            er = rng.choice(["", "", " "])
            attrs.append((kind, n, v, el, er, q))
        seps.append(rng.choice(SEPS))
    # a bare attribute directly followed by `=`-less quoted ... cannot occur; but a bare name followed
    # by sep and then name=... is fine.
    return Tag(name, attrs, seps, rng.choice(["", "", " ", "  "]), rng.choice(["", "", " ", "\n"]))


MALFORMED_BODIES = ["a=b\nc='d'", "a=b\tc='d'", "a x=1\nskip", "a x=1\n to='2000-01-01 00:00:00'", "=x", " =x", "'a'", '"a"', "a ='x", 'a="x', "a='x' =", "", " ", "  ", "a==b", "a= b c", "a=b=c 'd'",
                    "a '", "=", "\n", "a\n=\n'v'"]

# ------------------------------------------------------------------ AST documents


class El:
    __slots__ = ("kind", "ready", "skip", "unwrap", "children", "indent", "wrap_open", "wrap_close", "to", "name",
                 "skip_pos", "extra", "id", "pre_close", "post_open", "unwrap_pos", "post_close")

    def __init__(self, kind, ready, skip=False, unwrap=False, children=None, indent=""):
        self.kind, self.ready, self.skip, self.unwrap = kind, ready, skip, unwrap
        self.children = children or []
        self.indent = indent
        self.wrap_open = "if (x) {"
        self.wrap_close = "}"
        self.to = None
        self.name = None
        self.skip_pos = 1
        self.unwrap_pos = None   # None: behind the condition attribute; 1: first attribute
        self.extra = ""
        self.id = 0
        self.pre_close = ""     # text in front of the closing tag on its line (e.g. another inline element)
        self.post_open = ""     # text behind the opening tag on its line
        self.post_close = ""    # text behind the closing tag on its line

    def effective_ready(self):
        return self.ready and not self.skip and self.kind in ("tl", "rm")


class Spelling:
    def __init__(self, ds="<", de=">", tl="tl", rm="rm", other="zz", multiline=False):
        self.ds, self.de, self.tl, self.rm, self.other = ds, de, tl, rm, other
        # multiline: tags that span lines (attributes separated by a line break, a line break in front of the end
        # delimiter); only used for correspondence-only inputs - the line-based reference oracles assume one-line tags
        self.multiline = multiline

    def tagname(self, kind):
        return {"tl": self.tl, "rm": self.rm}.get(kind, self.other)

    def open_tag(self, e):
        # one element in six quotes its condition attribute with double quotes, one in eight separates its attributes
        # by two blanks (both chosen by the element's id, see the unwrap-block spelling below)
        q = '"' if zlib.crc32(b"qt%d" % e.id) % 6 == 0 and '"' not in self.ds + self.de else "'"
        sep = "  " if zlib.crc32(b"sp%d" % e.id) % 8 == 0 else " "
        # one element in five writes blanks around the `=` of its condition attribute (`to ='..'`, `to = '..'`, `to= '..'`)
        eq = {0: " =", 1: " = ", 2: "= "}.get(zlib.crc32(b"eq%d" % e.id) % 15, "=")
        if e.kind == "tl":
            a = "to%s%s%s%s" % (eq, q, e.to or (READY_T if e.ready else PEND_T), q)
        elif e.kind == "rm":
            a = "name%s%s%s%s" % (eq, q, e.name if e.name is not None else ("a" if e.ready else "b"), q)
        else:
            a = "q%s%s1%s" % (eq, q, q)
        # one element in twelve repeats its condition attribute with the OPPOSITE verdict behind the first one (the first
        # occurrence decides): `to='<expired>' to='<future>'`, `name='a' name='zz'`
        if zlib.crc32(b"dup%d" % e.id) % 12 == 0:
            if e.kind == "tl":
                a += " to=%s%s%s" % (q, PEND_T if (e.to or (READY_T if e.ready else PEND_T)) != PEND_T else READY_T, q)
            elif e.kind == "rm":
                first = e.name if e.name is not None else ("a" if e.ready else "b")
                a += " name=%s%s%s" % (q, "zz-never" if first in ("a", "") else "a", q)
        parts = [self.tagname(e.kind), a]
        if e.unwrap:
            # the attribute counts by its name: a quarter of the elements spell it with a value (chosen by the
            # element's id, not by the generator's random stream, so that all other choices stay what they were)
            word = {0: "unwrap-block='true'", 1: "unwrap-block=''", 2: "unwrap-block=1"}.get(
                zlib.crc32(b"uw%d" % e.id) % 12, "unwrap-block")
            if e.unwrap_pos is None:
                parts.append(word)
            else:
                parts.insert(min(e.unwrap_pos, len(parts)), word)
        if e.skip:
            parts.insert(min(e.skip_pos, len(parts)), "skip")
        if e.extra:
            parts.append(e.extra)
        if self.multiline:
            k = zlib.crc32(b"ml%d" % e.id) % 5
            if k == 4:
                sep = "\n"          # the continuation lines start in column 0
            if k == 0:
                sep = "\n" + (e.indent or "") + "  "
            elif k == 1:
                return self.ds + sep.join(parts) + "\n" + (e.indent or "") + self.de
            elif k == 2:
                return self.ds + parts[0] + "\n" + " ".join(parts[1:]) + self.de
        return self.ds + sep.join(parts) + self.de

    def close_tag(self, e):
        if self.multiline and zlib.crc32(b"mc%d" % e.id) % 3 == 0:
            return self.ds + "/" + self.tagname(e.kind) + "\n" + (e.indent or "") + self.de
        return self.ds + "/" + self.tagname(e.kind) + self.de


class Line:
    """A plain line; `inline` (optional) is an El rendered inside the line: pre + <open> + mid + <close> + post."""
    __slots__ = ("text", "id", "inline", "pre", "mid", "post")

    def __init__(self, text, id=0, inline=None, pre="", mid="", post=""):
        self.text, self.id, self.inline, self.pre, self.mid, self.post = text, id, inline, pre, mid, post

    def render(self, sp):
        if self.inline is None:
            return self.text
        return self.pre + sp.open_tag(self.inline) + self.mid + sp.close_tag(self.inline) + self.post


class DocGen:
    """Block documents: every tag alone on its line."""

    def __init__(self, rng, depth=3, unit=None, p_el=0.5, p_ready=0.6, p_skip=0.12, p_unwrap=0.3, p_blank=0.2,
                 p_wsonly=0.3, allow_unwrap=True, kinds=("tl", "tl", "rm", "rm", "zz"), max_items=4, unique=False,
                 times=None, names=None, p_inline=0.0, p_wrapper_tags=0.0):
        self.rng = rng
        self.depth = depth
        self.unit = unit or rng.choice(["  ", "    ", "\t", "  ", "    ", "\t", " \t", "\t "])
        self.p_el, self.p_ready, self.p_skip, self.p_unwrap = p_el, p_ready, p_skip, p_unwrap
        self.p_blank, self.p_wsonly, self.allow_unwrap, self.kinds = p_blank, p_wsonly, allow_unwrap, kinds
        self.max_items, self.unique = max_items, unique
        self.counter = 0
        self.times, self.names = times, names
        self.p_inline = p_inline
        self.words = WORDS      # the pool of plain lines; replaced by the "realistic" families
        self.p_wrapper_tags = p_wrapper_tags

    def word(self):
        self.counter += 1
        w = self.rng.choice(self.words)
        if self.unique:
            if self.rng.random() < 0.12:
                # a unique word made of two-byte characters only (and possibly a blank): no ASCII byte on the line
                return "й" + "".join(chr(0xE0 + int(d)) for d in str(self.counter)) + self.rng.choice(["", " λ", "\tж"])
            return "%s#%d" % (w, self.counter)
        return w

    def block(self, depth, indent, n=None):
        rng = self.rng
        items = []
        n = n if n is not None else rng.randint(0, self.max_items)
        for _ in range(n):
            r = rng.random()
            if depth > 0 and r < self.p_el:
                kind = rng.choice(self.kinds)
                e = El(kind, rng.random() < self.p_ready, rng.random() < self.p_skip,
                       self.allow_unwrap and rng.random() < self.p_unwrap, indent=indent)
                e.skip_pos = rng.choice([1, 2, 3])
                if e.unwrap and rng.random() < 0.25:
                    e.unwrap_pos = 1
                if self.times and kind == "tl":
                    e.to = rng.choice(self.times)
                if self.names and kind == "rm":
                    e.name = rng.choice(self.names)
                self.counter += 1
                e.id = self.counter
                inner = indent + (self.unit if (e.unwrap or rng.random() < 0.5) else "")
                if e.unwrap:
                    e.wrap_open = rng.choice(["if (x) {", "{", "while (y) {", "begin é"])
                    e.wrap_close = rng.choice(["}", "end", "} // x"])
                    if rng.random() < self.p_wrapper_tags:
                        sp0 = Spelling()
                        def inl():
                            k = rng.choice(["rm", "rm", "tl"])
                            ie = El(k, rng.random() < 0.8)
                            return sp0.open_tag(ie) + rng.choice(["", "x", "é"]) + sp0.close_tag(ie)
                        n_in = rng.choice([1, 2, 2, 3])
                        e.wrap_open = rng.choice(["{ ", "", "é "]) + rng.choice([" ", ""]).join(inl() for _ in range(n_in)) + rng.choice(["", " y", "é  y"])
                        if rng.random() < 0.4:
                            e.wrap_close = rng.choice(["} ", ""]) + inl() + rng.choice(["", " é"])
                    e.children = self.block(depth - 1, inner, n=rng.choice([0, 1, 1, 2, 3, 4]))
                else:
                    e.children = self.block(depth - 1, inner)
                items.append(e)
            elif r < self.p_el + self.p_blank:
                items.append(Line(indent if rng.random() < self.p_wsonly else ""))
            elif rng.random() < self.p_inline:
                kind = rng.choice(self.kinds)
                e = El(kind, rng.random() < self.p_ready, rng.random() < self.p_skip, False, indent="")
                if self.times and kind == "tl":
                    e.to = rng.choice(self.times)
                if self.names and kind == "rm":
                    e.name = rng.choice(self.names)
                self.counter += 1
                e.id = self.counter
                items.append(Line(None, inline=e, pre=indent + rng.choice(["", "\t", "a ", self.word() + " "]),
                                  mid=rng.choice(["", "b", " é ", "\t", self.word()]),
                                  post=rng.choice(["", " c", ";", " " + self.word(), "\t// c", "\t", " \tx\t"])))
            else:
                extra = rng.choice(["", "", self.unit])
                items.append(Line(indent + extra + self.word()))
        return items

    def doc(self):
        return self.block(self.depth, self.rng.choice(["", "", self.unit]), n=self.rng.randint(1, self.max_items + 1))


def render_lines(items, sp, out):
    for it in items:
        if isinstance(it, Line):
            out.append(it.render(sp))
        else:
            out.append(it.indent + sp.open_tag(it) + it.post_open)
            if it.unwrap:
                if it.wrap_open is not None:
                    out.append(it.indent + it.wrap_open)
                render_lines(it.children, sp, out)
                if it.wrap_close is not None:
                    out.append(it.indent + it.wrap_close)
            else:
                render_lines(it.children, sp, out)
            out.append(it.indent + it.pre_close + sp.close_tag(it) + it.post_close)


def render(items, sp=None, final_nl=True):
    sp = sp or Spelling()
    out = []
    render_lines(items, sp, out)
    s = "\n".join(out)
    if final_nl and out:
        s += "\n"
    return s


def unicode_space_lines(items, rng, unit):
    """put white space outside ASCII (ideographic space, no-break space, em space, line / paragraph separator, NEL,
    vertical tab, form feed) right behind the indentation of inner lines of unwrap-blocks - the first one in particular -
    and indent later lines deeper"""
    for e in all_elements(items):
        if not e.unwrap:
            continue
        lines = [ch for ch in e.children if isinstance(ch, Line) and ch.inline is None and ch.text and ch.text.strip(" \t")]
        for k, ch in enumerate(lines):
            body = ch.text.lstrip(" \t")
            lead = ch.text[:len(ch.text) - len(body)]
            if k == 0 or rng.random() < 0.3:
                body = rng.choice(["\u3000", "\u00a0", "\u2003", "\x0b", "\x0c", "\u3000\u3000 ", "\u2028", "\u2029", "\u0085"]) + body
            if k > 0 and rng.random() < 0.6:
                lead = lead + unit * rng.choice([1, 2])
            ch.text = lead + body


def all_elements(items):
    for it in items:
        if isinstance(it, El):
            yield it
            yield from all_elements(it.children)
        elif it.inline is not None:
            yield it.inline


class LInfo:
    """one rendered source line with what the reference knows about it"""
    __slots__ = ("text", "removed", "blocks", "role", "el", "under_ready")

    def __init__(self, text, removed, blocks, role, el, under_ready):
        self.text, self.removed, self.blocks, self.role, self.el, self.under_ready = text, removed, blocks, role, el, under_ready


def lead_ws(s):
    return len(s) - len(s.lstrip(" \t"))


def layout(items, sp, removed=False, blocks=(), out=None):
    """Reference semantics of a block document: which lines disappear and which dedents apply.
    blocks: tuple of (t, s) of the enclosing unwrapped ready blocks, outermost first (source columns)."""
    out = [] if out is None else out
    for it in items:
        if isinstance(it, Line):
            out.append(LInfo(it.render(sp), removed, blocks, "line", it.inline, removed))
            continue
        ready = it.effective_ready()
        if ready and not it.unwrap:
            out.append(LInfo(it.indent + sp.open_tag(it), True, blocks, "open", it, removed))
            layout(it.children, sp, True, blocks, out)
            out.append(LInfo(it.indent + sp.close_tag(it), True, blocks, "close", it, removed))
        elif it.unwrap:
            sub = []
            layout(it.children, sp, removed, (), sub)   # placeholder to find the first inner line
            first = sub[0].text if sub else it.indent + it.wrap_close
            t = lead_ws(it.indent + "x")
            s_ = max(0, lead_ws(first + "x") - t) if first.strip(" \t") != "" else max(0, len(first) - t)
            inner_blocks = blocks + ((t, s_),) if ready else blocks
            rm = removed or ready
            out.append(LInfo(it.indent + sp.open_tag(it), rm, blocks, "open", it, removed))
            out.append(LInfo(it.indent + it.wrap_open, rm, blocks, "wrap_open", it, removed))
            layout(it.children, sp, removed, inner_blocks, out)
            out.append(LInfo(it.indent + it.wrap_close, rm, blocks, "wrap_close", it, removed))
            out.append(LInfo(it.indent + sp.close_tag(it), rm, blocks, "close", it, removed))
        else:
            out.append(LInfo(it.indent + sp.open_tag(it), removed, blocks, "open", it, removed))
            layout(it.children, sp, removed, blocks, out)
            out.append(LInfo(it.indent + sp.close_tag(it), removed, blocks, "close", it, removed))
    return out


def dedent(text, blocks):
    """delete the indentation bytes whose column lies in the union of [t, t+s) over the blocks"""
    w = lead_ws(text)
    drop = set()
    for (t, s_) in blocks:
        for c in range(t, min(t + s_, w)):
            drop.add(c)
    return "".join(ch for i, ch in enumerate(text[:w]) if i not in drop) + text[w:]


def g_ast(rng, **kw):
    g = DocGen(rng, **kw)
    return g.doc()


def mutate(rng, d, ds="<", de=">"):
    """G-mut: break the block structure of a rendered document."""
    k = rng.choice(["join", "join", "dropline", "dupline", "swap", "stray", "prefix", "leadnl", "tailmb", "none"])
    lines = d.split("\n")
    if k == "join":
        out = []
        for ch in d:
            if ch == "\n" and rng.random() < 0.25:
                out.append(rng.choice(["", " ", "  ", "\t"]))
            else:
                out.append(ch)
        return "".join(out)
    if k == "dropline" and len(lines) > 1:
        del lines[rng.randrange(len(lines))]
        return "\n".join(lines)
    if k == "dupline" and lines:
        i = rng.randrange(len(lines))
        lines.insert(i, lines[i])
        return "\n".join(lines)
    if k == "swap" and len(lines) > 2:
        i = rng.randrange(len(lines) - 1)
        lines[i], lines[i + 1] = lines[i + 1], lines[i]
        return "\n".join(lines)
    if k == "stray":
        i = rng.randrange(len(d) + 1)
        return d[:i] + rng.choice([ds, de, ds + de, ds + " " + de, ds + "/x" + de, ds[:1], de[:1]]) + d[i:]
    if k == "prefix":
        i = d.find(ds)
        if i >= 0:
            return d[:i] + ds[: max(1, len(ds) - 1)] + d[i:]
    if k == "leadnl":
        return "\n" + d
    if k == "tailmb":
        return d.rstrip("\n") + rng.choice(["あ", "é", "𝄞"])
    return d


# ------------------------------------------------------------------ unwrap geometries (G-unwrap)
U_OPEN = "<tl to='%s' unwrap-block>" % READY_T
U_CLOSE = "</tl>"
LINE_SHAPES = ["{", "}", "  code();", "", "  ", "<rm name='a'>", "</rm>", "<rm name='a'>x</rm>",
               "<rm name='a'> code", "<rm name='b'>", "code </rm>", U_OPEN, U_CLOSE]
# shapes that put tags on wrapper lines next to multi-byte text (D3 / D15 geometries)
WRAPPER_SHAPES = ["{ <rm name='a'>", "</rm>é  y", "</rm>  é", "é <rm name='a'>", "</rm>", "<rm name='a'>é</rm>あ", "  y", "}", "あ"]


def g_unwrap_exhaustive(maxk, shapes=None):
    shapes = shapes or LINE_SHAPES
    for k in range(0, maxk + 1):
        for body in itertools.product(shapes, repeat=k):
            yield "\n".join(("pre", U_OPEN) + body + (U_CLOSE, "post")) + "\n"


def g_unwrap_random(rng, n, maxk=6, shapes=None):
    shapes = shapes or LINE_SHAPES
    for _ in range(n):
        k = rng.randint(0, maxk)
        ind = rng.choice(["", "  ", "\t", "  a ", "é ", "\tb "])
        pool = shapes if rng.random() < 0.6 else WRAPPER_SHAPES
        body = [rng.choice([ind, "  ", "    ", ""]) + rng.choice(pool) for _ in range(k)]
        pre = [] if rng.random() < 0.3 else ["pre"]
        post = [] if rng.random() < 0.3 else ["post"]
        s = "\n".join(pre + [ind + U_OPEN] + body + [rng.choice([ind, "", "  "]) + U_CLOSE + rng.choice(["", "", " é"])] + post)
        if rng.random() < 0.7:
            s += "\n"
        yield s


# ------------------------------------------------------------------ tree sequences (G-seq)
SEQ_ATOMS = ["<a>", "<b>", "</a>", "</b>", "</z>", "<//a>", "t"]


def g_seq_exhaustive(L):
    for n in range(0, L + 1):
        for t in itertools.product(SEQ_ATOMS, repeat=n):
            yield "".join(t)


def g_seq_random(rng, n, maxlen=40):
    al = SEQ_ATOMS + ["<a x='1'>", "< >", "<=>", "<a skip>", "<b\n>"]
    for _ in range(n):
        yield "".join(rng.choice(al) for _ in range(rng.randint(8, maxlen)))


# ------------------------------------------------------------------ time (G-time)
def fmt_off(minutes, colon=True, minus="-"):
    sign = "+" if minutes >= 0 else minus
    m = abs(minutes)
    return "%s%02d%s%02d" % (sign, m // 60, ":" if colon else "", m % 60)


def civil(ts):
    """(Y, M, D, h, m, s) of a Unix timestamp, proleptic Gregorian (independent of the Lean model)."""
    import datetime
    d = datetime.datetime(1970, 1, 1) + datetime.timedelta(seconds=ts)
    return (d.year, d.month, d.day, d.hour, d.minute, d.second)


def fmt_to(t):
    return "%04d-%02d-%02d %02d:%02d:%02d" % t


MALFORMED_TO = [
    "2020/01/01 00:00:00", "2020-01-01T00:00:00", "2020-01-01", "2020-01-01 00:00", "2020-13-01 00:00:00",
    "2020-01-32 00:00:00", "2020-02-30 00:00:00", "2021-02-29 00:00:00", "2020-01-01 24:00:00",
    "2020-01-01 00:60:00", "2020-01-01 00:00:61", "2020-01-01 00:00:00 +09:00", "2020-01-01 00:00:00Z",
    "", "tomorrow", "2020-00-10 00:00:00", "2020-01-00 00:00:00", "1900-02-29 00:00:00", "2020-01-01 00.00.00",
    "20200101000000", "2020-01-01 00:00:00.5", "2020-1-1 0:0", "-", "2020-01-01 00:00:00 UTC", "2100-02-29 12:00:00",
]
MALFORMED_OFF = ["", "Z", "+9", "UTC", "+24:00", "+09:60", "0900", "09:00", "+09:00x", "+0900 ", "+9:00", "+09", "+09:0",
                 "+ 09:00", "++09:00", "+99:00", "JST", "+09:00:00", "+0a:00"]
LENIENT_TO = ["2020-1-1 0:0:0", " 2020-01-01 00:00:00", "2020-01-01  00:00:00", "2020-01-01 00:00:00 ", "+2020-01-01 00:00:00",
              "2019-12-31 23:59:60", "2020- 01-01 00:00:00", "2020-01-0100:00:00", "2020-01-01\t00:00:00", "+02020-01-01 00:00:00",
              "-0001-01-01 00:00:00", "0000-01-01 00:00:00", "2020-01-01　00:00:00", "262142-12-31 23:59:59", "-262143-01-01 00:00:00",
              "262143-01-01 00:00:00", "+262142-12-31 23:59:59", "99999999999999999999-01-01 00:00:00"]
LENIENT_OFF = ["+09 00", "+09: 00", "−09:00", "+09::00", " +09:00", "+09　00", "-00:00", "+23:59", "-23:59"]

BASE_INSTANTS = [0, 951782400, 1582934400, 1583020800, 1577836800, 1609459199, 4107542400, 946684800, 68169600 * 3,
                 -86400 * 366, 1078099200, 4102444800 + 86400 * 59]


def g_time_grid(rng, n):
    """yield (to_fields, off_minutes, colon, now, expected_ready)"""
    for _ in range(n):
        base = rng.choice(BASE_INSTANTS) + rng.choice([0, 0, 1, -1, 59, 3599, 86399, rng.randint(-10 ** 6, 10 ** 6)])
        off = rng.choice(range(-12 * 60, 14 * 60 + 1, 15))
        colon = rng.random() < 0.5
        # `to` is the wall clock at offset `off` of instant `base`
        to = civil(base + off * 60)
        now = base + rng.choice([0, 0, 1, -1, -1, 60, -60, 3600, -3600, 86400, -86400, rng.randint(-10 ** 5, 10 ** 5)])
        yield (to, off, colon, now, now >= base)


# ------------------------------------------------------------------ configurations (G-cfg)
NAME_POOL = ["a", "ab", "A", "b", "", "feature1", "feature", "feature10", "Feature1", "vec![]", "é", "a b", "skip", "+00:00",
             "removal-marker", "<!-- <", "> -->", "time-limited"]


def g_targets(rng):
    k = rng.choice([0, 0, 1, 1, 2, 3])
    return tuple(sorted(set(rng.choice(NAME_POOL) for _ in range(k))))
