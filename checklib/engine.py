"""Orchestrator: build, Lean obligations, correspondence, oracle, verdict, evidence (DESIGN §5)."""
import hashlib, json, os, random, re, shutil, subprocess, sys, time

from . import proto

VERIF = "/verif"
REPO = "/repo"
LEAN = os.path.join(VERIF, "lean")
BUILD = os.path.join(VERIF, ".build")
ALLOWED_AXIOMS = {"propext", "Classical.choice", "Quot.sound"}
TRUSTED_BASE = [
    "Lean 4.33.0 kernel (lake build; leanchecker in the thorough tier)",
    "axioms allowed in property theorems: propext, Classical.choice, Quot.sound (audited with #print axioms on every run)",
    "hand-written Lean model of chiritori (lean/Chiritori/Model), tied to /repo by the correspondence check only",
    "correspondence check: Rust harness (harness/), Lean driver (lean/Driver.lean), hex line protocol, Python diff and generators",
    "modelled, not verified: Rust std string functions, chrono 0.4.38 parse_from_str / instant comparison, serde_json, clap, atty",
    "UTF-8 abstraction ABy (lead/continuation bytes); assumption len < 2^63 (no usize addition overflow)",
]


class BuildError(Exception):
    def __init__(self, what, log):
        super().__init__(what)
        self.what, self.log = what, log


def sh(cmd, cwd=None, env=None, timeout=3600):
    e = dict(os.environ)
    e.update({"CARGO_NET_OFFLINE": "true"})
    if env:
        e.update(env)
    p = subprocess.run(cmd, cwd=cwd, env=e, stdout=subprocess.PIPE, stderr=subprocess.STDOUT, timeout=timeout)
    return p.returncode, p.stdout.decode(errors="replace")


def build_harness():
    """Rebuild the Rust harness from /repo's working tree (hook feature on)."""
    shutil.copyfile(os.path.join(REPO, "Cargo.lock"), os.path.join(VERIF, "harness", "Cargo.lock"))
    rc, out = sh(["cargo", "build", "--offline"], cwd=os.path.join(VERIF, "harness"))
    if rc != 0:
        raise BuildError("harness build failed (does /repo still compile with --features verif-hooks?)", out)


def build_cli():
    rc, out = sh(["cargo", "build", "--offline", "-p", "chiritori-cli"], cwd=REPO,
                 env={"CARGO_TARGET_DIR": os.path.join(BUILD, "cli-target")})
    if rc != 0:
        raise BuildError("chiritori-cli build failed", out)
    return os.path.join(BUILD, "cli-target", "debug", "chiritori")


def build_lean(targets):
    rc, out = sh(["lake", "build"] + targets, cwd=LEAN, timeout=2400)
    return rc, out


def lean_obligations(pid, thorough=False):
    """Build Props.<pid>, audit axioms of every registered theorem. Returns dict."""
    obl = json.load(open(os.path.join(LEAN, "obligations.json")))
    entry = obl.get(pid, {"theorems": [], "unproved": []})
    theorems = entry["theorems"]
    module = "Chiritori.Props." + pid
    res = {"module": module, "theorems": theorems, "unproved_full_statements": entry.get("unproved", []),
           "obligations": len(theorems), "discharged": 0, "failures": [], "axioms": {}}
    extra_mods = sorted({"Chiritori.Props." + t.split(".")[2] for t in theorems if t.startswith("Chiritori.Props.")} | set(entry.get("modules", [])) - {module})
    rc, out = build_lean([module, "chiritori_driver"] + extra_mods)
    if rc != 0:
        res["failures"].append({"theorem": "*", "why": "lake build failed", "log": out[-3000:]})
        return res
    # forbidden constructs in the sources (comments stripped)
    bad = scan_forbidden()
    if bad:
        res["failures"].append({"theorem": "*", "why": "forbidden construct in Lean sources", "log": "\n".join(bad)})
        return res
    os.makedirs(BUILD, exist_ok=True)
    audit = os.path.join(BUILD, "Audit_%s.lean" % pid)
    with open(audit, "w") as f:
        f.write("import %s\n" % module)
        for m in extra_mods:
            f.write("import %s\n" % m)
        for t in theorems:
            f.write("#print axioms %s\n" % t)
    rc, out = sh(["lake", "env", "lean", audit], cwd=LEAN)
    if rc != 0:
        res["failures"].append({"theorem": "*", "why": "axiom audit failed (missing theorem?)", "log": out[-3000:]})
        return res
    text = out.replace("\n  ", " ").replace("\n ", " ")
    for t in theorems:
        m = re.search(r"'%s' depends on axioms: \[([^\]]*)\]" % re.escape(t), text)
        if m:
            ax = [a.strip() for a in m.group(1).split(",") if a.strip()]
        elif re.search(r"'%s' does not depend on any axioms" % re.escape(t), text):
            ax = []
        else:
            res["failures"].append({"theorem": t, "why": "no #print axioms output", "log": out[-1000:]})
            continue
        res["axioms"][t] = ax
        extra = [a for a in ax if a not in ALLOWED_AXIOMS]
        if extra:
            res["failures"].append({"theorem": t, "why": "unexpected axioms " + ",".join(extra), "log": ""})
        else:
            res["discharged"] += 1
    if thorough and not res["failures"]:
        rc, out = sh(["lake", "env", "leanchecker", module] + extra_mods, cwd=LEAN)
        res["leanchecker_rc"] = rc
        if rc != 0:
            res["failures"].append({"theorem": "*", "why": "leanchecker rejected " + " ".join([module] + extra_mods), "log": out[-2000:]})
            res["discharged"] = 0
    return res


FORBIDDEN = re.compile(r"\bsorry\b|\badmit\b|^\s*axiom\s|native_decide|bv_decide|implemented_by|\bunsafe\s|maxHeartbeats\s+0|@\[extern|partial def")


def strip_comments(src):
    src = re.sub(r"/-.*?-/", "", src, flags=re.S)
    return "\n".join(l.split("--")[0] for l in src.split("\n"))


def scan_forbidden():
    bad = []
    for root, _, files in os.walk(os.path.join(LEAN, "Chiritori")):
        for fn in files:
            if fn.endswith(".lean"):
                p = os.path.join(root, fn)
                for i, l in enumerate(strip_comments(open(p).read()).split("\n")):
                    if FORBIDDEN.search(l):
                        bad.append("%s:%d: %s" % (p, i + 1, l.strip()))
    return bad


# --------------------------------------------------------------------------------------------


class Case:
    __slots__ = ("label", "reqs", "meta", "key")

    def __init__(self, label, reqs, meta=None, key=None):
        self.label, self.reqs, self.meta = label, reqs, meta
        self.key = key


class Failure:
    def __init__(self, case, kind, detail, impl=None, model=None):
        self.case, self.kind, self.detail, self.impl, self.model = case, kind, detail, impl, model


def load_known_findings(pid):
    kf = json.load(open(os.path.join(VERIF, "known-findings.json")))
    return [f for f in kf.get("findings", []) if f["property"] == pid], [f for f in kf.get("fixed", []) if f["property"] == pid]


def load_corpus(pid):
    d = os.path.join(VERIF, "corpus", pid)
    out = []
    if os.path.isdir(d):
        for fn in sorted(os.listdir(d)):
            if fn.endswith(".json"):
                out.append((fn, json.load(open(os.path.join(d, fn)))))
    return out


def write_replay(pid, body):
    os.makedirs(os.path.join(VERIF, "replays"), exist_ok=True)
    h = hashlib.sha1(json.dumps(body, sort_keys=True, ensure_ascii=False).encode()).hexdigest()[:10]
    p = os.path.join(VERIF, "replays", "%s-%s.json" % (pid, h))
    with open(p, "w") as f:
        json.dump(body, f, indent=1, ensure_ascii=False)
    return p


def public_meta(m):
    if isinstance(m, dict) and "replay" in m:
        return {k: v for k, v in m.items() if not k.startswith("_")}
    return None


def describe_req(line):
    f = line.split("\t")
    d = {"op": f[0], "src": proto.unhx(f[1]), "ds": proto.unhx(f[2]), "de": proto.unhx(f[3]), "tl": proto.unhx(f[4]),
         "rm": proto.unhx(f[5]), "now": f[6], "off": proto.unhx(f[7]),
         "targets": [] if f[8] == "-" else [proto.unhx(t[1:]) for t in f[8].split(",")],
         "args": [] if f[9] == "-" else [int(x) for x in f[9].split(",")], "line": line}
    return d


def describe_reply(r):
    k, v = proto.parse_reply(r)
    if k == "panic":
        f = r.split("\t")
        msg = ""
        if len(f) > 2:
            try:
                msg = proto.unhx(f[2])
            except Exception:
                msg = f[2]
        return {"panic": v, "message": msg}
    if re.fullmatch(r"[0-9a-f]*", v) and len(v) % 2 == 0 and len(v) > 0:
        try:
            return {"ok_text": proto.unhx(v)}
        except Exception:
            pass
    return {"ok": v}


def run_property(prop, tier, seed, replay=None):
    """Returns exit code."""
    t0 = time.time()
    pid = prop.id
    rng = random.Random(seed * 1000003 + int(hashlib.sha1(pid.encode()).hexdigest()[:6], 16))
    lines_out = []

    def emit(s):
        print(s)
        sys.stdout.flush()
        lines_out.append(s)

    level = "proof"
    try:
        man = json.load(open(os.path.join(VERIF, "MANIFEST.json")))
        for c in man["checks"]:
            if c["property_id"] == pid:
                level = c["level_claimed"]["category"]
    except Exception:
        pass
    evidence = {"property_id": pid, "tier": tier, "seed": seed, "level": level, "coverage": {}, "assumptions": [],
                "wall_s": 0.0, "violations": 0}
    cov = evidence["coverage"]
    if level != "proof":
        cov["explanation"] = ("no Lean theorem is registered for this property yet: the run compares the Lean model with the "
                              "implementation on the property's observable (correspondence) and evaluates a reference oracle on the "
                              "implementation's output; see level_claimed in MANIFEST.json and DESIGN.md §12.4")
    cov["trusted_base"] = TRUSTED_BASE + list(getattr(prop, "extra_trusted", []))
    cov["checker_cmd"] = "cd /verif/lean && lake build Chiritori.Props.%s && lake env lean /verif/.build/Audit_%s.lean  (#print axioms ⊆ {propext, Classical.choice, Quot.sound}); thorough: lake env leanchecker Chiritori.Props.%s" % (pid, pid, pid)
    evidence["assumptions"] = list(getattr(prop, "assumptions", []))
    violations = []

    # 1. build implementation side
    try:
        build_harness()
        if getattr(prop, "needs_cli", False):
            prop.cli = build_cli()
    except BuildError as e:
        path = write_replay(pid, {"kind": "build-error", "what": e.what, "log": e.log[-4000:]})
        emit("VIOLATION property=%s replay=%s no-failing-input-found" % (pid, path))
        finish(evidence, t0, 1, {"build_error": e.what})
        return 1

    # 2. Lean obligations
    ob = lean_obligations(pid, thorough=(tier == "thorough"))
    cov["obligations"] = ob["obligations"]
    cov["discharged"] = ob["discharged"]
    cov["theorems"] = ob["theorems"]
    cov["axioms"] = ob["axioms"]
    cov["full_strength"] = not ob["unproved_full_statements"]
    cov["unproved_parts"] = ob["unproved_full_statements"]
    proof_broken = ob["failures"]

    # 3./4. cases: known-finding witnesses + corpus first, then generated
    findings, fixed = load_known_findings(pid)
    cases = []
    for fn, body in load_corpus(pid):
        cases.extend(prop.corpus_cases(fn, body))
    ncorpus = len(cases)
    for f in findings:
        for w in f.get("witnesses", []):
            cases.extend(prop.corpus_cases("finding:" + f["id"], w))
    if replay:
        body = json.load(open(replay))
        cases = prop.corpus_cases("replay", body.get("input", body))
        ncorpus = len(cases)
    else:
        cases.extend(prop.cases(rng, tier))
        from . import common
        shared = list(common.cases_for(prop, seed, tier, Case))
        cov["shared_pool_cases"] = len(shared)
        cases.extend(shared)
    stats = run_cases(prop, cases, findings)
    disagreements, failures, known_hits = stats["disagreements"], stats["failures"], stats["known_hits"]

    # 6. verdict
    broken_tie = bool(proof_broken) or bool(disagreements)
    if broken_tie and not failures and not replay:
        # search: more and bigger inputs, focused where the tie broke
        emit("# proof obligation or correspondence broken; searching for a failing input")
        extra = list(prop.search_cases(rng, disagreements)) if hasattr(prop, "search_cases") else list(prop.cases(random.Random(seed + 7919), "thorough"))
        s2 = run_cases(prop, extra, findings)
        failures = s2["failures"]
        for k in ("evaluations", "nontrivial_keys"):
            pass
        stats["search_evaluations"] = s2["evaluations"]
        known_hits.update(s2["known_hits"])
        if not disagreements:
            disagreements = s2["disagreements"]

    for fid, n in sorted(known_hits.items()):
        f = [x for x in findings if x["id"] == fid][0]
        emit("KNOWN-FINDING: property=%s %s [%s, %d inputs in the documented region this run]" % (pid, f["what_fails"], fid, n))

    rc = 0
    if failures:
        f = shrink(prop, failures[0], findings)
        path = write_replay(pid, {
            "kind": "property-violation", "property": pid, "clause": f.kind, "detail": f.detail,
            "input": public_meta(f.case.meta),
            "requests": [describe_req(l) for l in f.case.reqs],
            "implementation": [describe_reply(r) for r in (f.impl or [])],
            "model": [describe_reply(r) for r in (f.model or [])],
            "label": f.case.label,
            "how_to_replay": "./check %s --replay <this file>" % pid})
        emit("VIOLATION property=%s replay=%s" % (pid, path))
        rc = 1
    elif broken_tie:
        body = {"kind": "tie-broken", "property": pid, "proof_failures": proof_broken,
                "correspondence": None}
        if disagreements:
            d = disagreements[0]
            body["correspondence"] = {"label": d.case.label, "first_differing_request": d.detail,
                                      "requests": [describe_req(l) for l in d.case.reqs],
                                      "implementation": [describe_reply(r) for r in d.impl],
                                      "model": [describe_reply(r) for r in d.model],
                                      "disagreeing_cases": len(disagreements)}
        path = write_replay(pid, body)
        emit("VIOLATION property=%s replay=%s no-failing-input-found" % (pid, path))
        rc = 1

    cov["evaluations"] = stats["evaluations"]
    cov["requests_compared"] = stats["requests"]
    cov["distinct_nontrivial"] = len(stats["nontrivial_keys"])
    cov["rule"] = prop.rule
    cov["samples"] = stats["samples"][:6]
    cov["distribution"] = stats["distribution"]
    cov["corpus_cases"] = ncorpus
    cov["model_disagreements"] = len(disagreements)
    cov["oracle_failures"] = len(failures)
    cov["known_findings_replayed"] = {k: v for k, v in known_hits.items()}
    cov["exhaustive"] = bool(getattr(prop, "exhaustive", False) and tier == "thorough")
    evidence["violations"] = 1 if rc else 0
    finish(evidence, t0, rc, None)
    return rc


def finish(evidence, t0, rc, extra):
    evidence["wall_s"] = round(time.time() - t0, 2)
    if extra:
        evidence["coverage"].update(extra)
    cov = evidence["coverage"]
    # a proof-level evidence file needs obligations >= 1; otherwise fall back to the generic keys
    if not cov.get("obligations"):
        cov.pop("obligations", None)
        cov.pop("discharged", None)
    cov.setdefault("evaluations", 0)
    cov.setdefault("distinct_nontrivial", 0)
    os.makedirs(os.path.join(VERIF, "evidence"), exist_ok=True)
    with open(os.path.join(VERIF, "evidence", evidence["property_id"] + ".json"), "w") as f:
        json.dump(evidence, f, indent=1, ensure_ascii=False)


def run_cases(prop, cases, findings, batch=20000):
    """Run impl and model on all requests of all cases; compare; evaluate the oracle on impl output."""
    stats = {"evaluations": 0, "requests": 0, "nontrivial_keys": set(), "samples": [], "distribution": {},
             "disagreements": [], "failures": [], "known_hits": {}}
    dist = stats["distribution"]
    it = iter(cases)
    while True:
        chunk = []
        nreq = 0
        for c in it:
            chunk.append(c)
            nreq += len(c.reqs)
            if nreq >= batch:
                break
        if not chunk:
            break
        lines = [l for c in chunk for l in c.reqs]
        ri = proto.run_impl(lines)
        rm = proto.run_model(lines)
        pos = 0
        pending_spec = []
        for c in chunk:
            n = len(c.reqs)
            ci, cm = ri[pos:pos + n], rm[pos:pos + n]
            pos += n
            stats["evaluations"] += 1
            stats["requests"] += n
            dis = None
            for j in range(n):
                if not proto.same(ci[j], cm[j]):
                    dis = j
                    break
            if dis is not None:
                stats["disagreements"].append(Failure(c, "model-disagreement", describe_req(c.reqs[dis]), ci, cm))
            pending_spec.append((c, ci, cm, dis))
        # spec requests (Lean predicates evaluated on the implementation's output)
        spec_lines, owners = [], []
        for (c, ci, cm, dis) in pending_spec:
            sl = prop.spec_reqs(c, ci) if hasattr(prop, "spec_reqs") and not c.meta.get("corr_only") else []
            owners.append(len(sl))
            spec_lines.extend(sl)
        spec_replies = proto.run_model(spec_lines) if spec_lines else []
        sp = 0
        for (c, ci, cm, dis), k in zip(pending_spec, owners):
            sr = spec_replies[sp:sp + k]
            sp += k
            # correspondence-only cases: inputs outside the property's domain, compared with the model only
            verdict = {"nontrivial": False, "tags": ["correspondence-only"]} if c.meta.get("corr_only") else prop.oracle(c, ci, sr)
            # verdict: dict(fail=None|str, nontrivial=bool, tags=[...])
            for t in verdict.get("tags", []):
                dist[t] = dist.get(t, 0) + 1
            if verdict.get("nontrivial"):
                stats["nontrivial_keys"].add(c.key if c.key is not None else hashlib.sha1("\n".join(c.reqs).encode()).digest())
                if len(stats["samples"]) < 6 and (stats["evaluations"] % 97 == 1 or len(stats["samples"]) < 2):
                    stats["samples"].append({"label": c.label, "request": describe_req(c.reqs[0]),
                                             "implementation": describe_reply(ci[0])})
            if verdict.get("fail"):
                fid = attribute(prop, c, ci, cm, dis, verdict, findings)
                if fid:
                    stats["known_hits"][fid] = stats["known_hits"].get(fid, 0) + 1
                else:
                    stats["failures"].append(Failure(c, verdict["fail"], verdict.get("detail", ""), ci, cm))
    if not stats["samples"] and cases:
        pass
    return stats


def attribute(prop, case, ci, cm, dis, verdict, findings):
    """A failing input belongs to a known finding iff it lies in the finding's documented region and
    the implementation still behaves exactly as the model (the precise description of the finding)."""
    if dis is not None:
        return None
    for f in findings:
        pred = getattr(prop, "region_" + f["region"], None)
        if pred and pred(case, verdict):
            return f["id"]
    return None


def shrink(prop, failure, findings, budget=400):
    """Delta-debug the failing case through prop.shrink_candidates, if the property provides it."""
    if not callable(getattr(prop, "shrink_candidates", None)):
        return failure
    cur = failure
    steps = 0
    improved = True
    # shrinking is a convenience, not part of the verdict: it gets a budget of steps AND of wall-clock time, and is skipped
    # for inputs so large that every candidate costs the model many seconds (the size families)
    import time as _time
    t0 = _time.time()
    src0 = (failure.case.meta or {}).get("src")
    if isinstance(src0, str) and len(src0) > 20000:
        return failure
    while improved and steps < budget:
        improved = False
        for cand in prop.shrink_candidates(cur.case):
            steps += 1
            if steps > budget or _time.time() - t0 > 60:
                return cur
            st = run_cases(prop, [cand], findings)
            if st["failures"]:
                cur = st["failures"][0]
                improved = True
                break
    return cur
