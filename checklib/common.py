"""A pool of inputs shared by all checks.

Every check compares implementation and model on this pool for the operations its theorems are about - no oracle, no
property verdict (`corr_only`).  The pool is a sample of the documents that the generators of *all* document-based
checks produce, so a family of inputs added for one property immediately ties the model to the code for every other
property whose theorems talk about the same operation.  (Rounds 7 and 8 of the seeded changes: most changes missed by
the check of their own property were caught at once by the check of a neighbouring one.)"""
import hashlib, os, pickle, random

from .proto import Cfg, req

DONORS = ["C01", "C02", "C04", "C11", "C12", "C13", "C14", "C15", "C16", "C17"]
PER_DONOR = {"quick": 250, "thorough": 4000}


def _source_digest():
    h = hashlib.sha1()
    here = os.path.dirname(__file__)
    for fn in sorted(os.listdir(here)):
        if fn.endswith(".py"):
            h.update(open(os.path.join(here, fn), "rb").read())
    return h.hexdigest()[:12]


def pool(seed, tier):
    """[(donor, label, src, ds, de, cfg_json)] - deterministic in (seed, tier, generator sources); cached on disk"""
    from . import registry
    cache = "/verif/.build/shared-pool-%s-%s-%s.pickle" % (seed, tier, _source_digest())
    if os.path.exists(cache):
        try:
            return pickle.load(open(cache, "rb"))
        except Exception:
            pass
    out = []
    for d in DONORS:
        prop = registry.get(d)
        rng = random.Random(seed * 7919 + int(hashlib.sha1(d.encode()).hexdigest()[:6], 16))
        picked = {}
        n = 0
        for c in prop.cases(rng, "quick"):
            m = c.meta or {}
            if not isinstance(m.get("src"), str) or "ds" not in m or "cfg" not in m or m.get("corr_only"):
                continue
            n += 1
            # reservoir per label, so that small families are not drowned by the big ones
            bucket = picked.setdefault(c.label, [])
            cap = max(20, PER_DONOR[tier] // 6)
            if len(bucket) < cap:
                bucket.append((d, c.label, m["src"], m["ds"], m["de"], m["cfg"]))
            else:
                j = rng.randrange(n)
                if j < cap:
                    bucket[j] = (d, c.label, m["src"], m["ds"], m["de"], m["cfg"])
        for label in sorted(picked):
            out.extend(picked[label])
    out.extend(_multiline_docs(seed, tier))
    os.makedirs("/verif/.build", exist_ok=True)
    try:
        pickle.dump(out, open(cache + ".tmp", "wb"))
        os.replace(cache + ".tmp", cache)
    except Exception:
        pass
    return out


def _multiline_docs(seed, tier):
    """documents whose tags span lines (a line break between attributes, in front of the end delimiter, inside the
    closing tag): every line-based piece of the code - wrapper lines of unwrap-blocks, line numbers of list items,
    whitespace tidying - sees tags that begin on one line and end on another"""
    from . import gen
    from .proto import DEFAULT_CFG
    rng = random.Random(seed * 104729 + 17)
    n = {"quick": 400, "thorough": 6000}[tier]
    out = []
    cfgs = [DEFAULT_CFG.to_json(), Cfg(targets=("a", "b")).to_json(), Cfg(now=0, targets=()).to_json()]
    for i in range(n):
        ds, de = gen.SAFE_DELIMS[i % len(gen.SAFE_DELIMS)] if i % 3 == 0 else ("<", ">")
        if i % 5 == 4:
            # delimiters that contain the line break themselves
            ds, de = [("<", ">\n"), ("\n<", ">"), ("<!--\n", "\n-->"), ("<", "\n>")][(i // 5) % 4]
        sp = gen.Spelling(ds, de, multiline=(i % 5 != 4 or i % 2 == 0))
        if i % 2 == 0:
            g = gen.DocGen(rng, depth=rng.choice([1, 2, 3]), p_unwrap=0.5, p_ready=0.7, p_skip=0.05, max_items=3,
                           p_wrapper_tags=0.3 if i % 4 == 0 else 0.0, p_inline=0.2 if i % 8 == 0 else 0.0)
            items = g.doc()
            if rng.random() < 0.7:
                items.insert(0, gen.Line("pre"))
        else:
            items = gen.g_ast(rng, depth=rng.choice([1, 2, 3]))
        src = gen.render(items, sp, final_nl=rng.random() < 0.8)
        out.append(("ML", "multiline-tags", src, ds, de, cfgs[i % len(cfgs)]))
    return out


def cases_for(prop, seed, tier, Case):
    ops = getattr(prop, "shared_ops", None)
    if not ops:
        return
    for (d, label, src, ds, de, cfgj) in pool(seed, tier):
        if d == prop.id:
            continue
        cfg = Cfg.from_json(cfgj)
        yield Case("shared:%s:%s" % (d, label), [req(op, src, ds, de, cfg) for op in ops],
                   {"replay": True, "corr_only": True, "src": src, "ds": ds, "de": de, "cfg": cfgj, "shared_ops": ops},
                   key=("shared", src, ds, cfgj.get("now"), tuple(cfgj.get("targets", []))))
