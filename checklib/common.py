"""A pool of inputs shared by all checks.

Every check compares implementation and model on this pool for the operations its theorems are about - no oracle, no
property verdict (`corr_only`).  The pool is a sample of the documents that the generators of *all* document-based
checks produce, so a family of inputs added for one property immediately ties the model to the code for every other
property whose theorems talk about the same operation.  (Rounds 7 and 8 of the seeded changes: most changes missed by
the check of their own property were caught at once by the check of a neighbouring one.)"""
import hashlib, os, pickle, random

from .proto import Cfg, req

DONORS = ["C01", "C02", "C04", "C11", "C12", "C13", "C14", "C15", "C16", "C17"]
PER_DONOR = {"quick": 250, "thorough": 4000}


def _source_digest():
    h = hashlib.sha1()
    here = os.path.dirname(__file__)
    for fn in sorted(os.listdir(here)):
        if fn.endswith(".py"):
            h.update(open(os.path.join(here, fn), "rb").read())
    return h.hexdigest()[:12]


def pool(seed, tier):
    """[(donor, label, src, ds, de, cfg_json)] - deterministic in (seed, tier, generator sources); cached on disk"""
    from . import registry
    cache = "/verif/.build/shared-pool-%s-%s-%s.pickle" % (seed, tier, _source_digest())
    if os.path.exists(cache):
        try:
            return pickle.load(open(cache, "rb"))
        except Exception:
            pass
    out = []
    for d in DONORS:
        prop = registry.get(d)
        rng = random.Random(seed * 7919 + int(hashlib.sha1(d.encode()).hexdigest()[:6], 16))
        picked = {}
        n = 0
        for c in prop.cases(rng, "quick"):
            m = c.meta or {}
            if not isinstance(m.get("src"), str) or "ds" not in m or "cfg" not in m or m.get("corr_only"):
                continue
            # the size families stay with their own checks (the model is slow on big inputs): at most three medium-sized
            # representatives of each reach the pool
            if len(m["src"]) > 6000:
                continue
            if len(m["src"]) > 1500 and len(picked.get(c.label, [])) >= 3:
                continue
            n += 1
            # reservoir per label, so that small families are not drowned by the big ones
            bucket = picked.setdefault(c.label, [])
            cap = max(20, PER_DONOR[tier] // 6)
            if len(bucket) < cap:
                bucket.append((d, c.label, m["src"], m["ds"], m["de"], m["cfg"]))
            else:
                j = rng.randrange(n)
                if j < cap:
                    bucket[j] = (d, c.label, m["src"], m["ds"], m["de"], m["cfg"])
        for label in sorted(picked):
            out.extend(picked[label])
    out.extend(_multiline_docs(seed, tier))
    out.extend(realistic_docs(seed, tier))
    out.extend(affix_docs(seed, tier))
    out.extend(lopsided_docs(seed, tier))
    os.makedirs("/verif/.build", exist_ok=True)
    try:
        pickle.dump(out, open(cache + ".tmp", "wb"))
        os.replace(cache + ".tmp", cache)
    except Exception:
        pass
    return out


def _multiline_docs(seed, tier):
    """documents whose tags span lines (a line break between attributes, in front of the end delimiter, inside the
    closing tag): every line-based piece of the code - wrapper lines of unwrap-blocks, line numbers of list items,
    whitespace tidying - sees tags that begin on one line and end on another"""
    from . import gen
    from .proto import DEFAULT_CFG
    rng = random.Random(seed * 104729 + 17)
    n = {"quick": 400, "thorough": 6000}[tier]
    out = []
    cfgs = [DEFAULT_CFG.to_json(), Cfg(targets=("a", "b")).to_json(), Cfg(now=0, targets=()).to_json()]
    for i in range(n):
        ds, de = gen.SAFE_DELIMS[i % len(gen.SAFE_DELIMS)] if i % 3 == 0 else ("<", ">")
        if i % 5 == 4:
            # delimiters that contain the line break themselves
            ds, de = [("<", ">\n"), ("\n<", ">"), ("<!--\n", "\n-->"), ("<", "\n>")][(i // 5) % 4]
        sp = gen.Spelling(ds, de, multiline=(i % 5 != 4 or i % 2 == 0))
        if i % 2 == 0:
            g = gen.DocGen(rng, depth=rng.choice([1, 2, 3]), p_unwrap=0.5, p_ready=0.7, p_skip=0.05, max_items=3,
                           p_wrapper_tags=0.3 if i % 4 == 0 else 0.0, p_inline=0.2 if i % 8 == 0 else 0.0)
            items = g.doc()
            if rng.random() < 0.7:
                items.insert(0, gen.Line("pre"))
        else:
            items = gen.g_ast(rng, depth=rng.choice([1, 2, 3]))
        src = gen.render(items, sp, final_nl=rng.random() < 0.8)
        out.append(("ML", "multiline-tags", src, ds, de, cfgs[i % len(cfgs)]))
    return out


HTML_WORDS = ["<div>", "</div>", "<p>a < b</p>", "<!-- plain comment -->", "<!--x-->", "a <!- b", "x -> y", "<br/>",
              "if (a < b) {", "<a href='x'>l</a>", "a <! b", "-- >", "->", "<", ">", "<<", "é <ü>", "1 > 0", "<!---->"]
JS_WORDS = ["a / b", "// comment", "/* plain */", "x = y /2;", "/** doc */", "a*/b", "http://x/y", "/", "*/", "> 0",
            "x /= 2", "re = /a*/;", "é / ü", "/*!", "1 > 0 */"]


def realistic_docs(seed, tier):
    """documents under the command's default-style delimiters whose plain lines contain the characters of the
    delimiters - `<`, `!`, `-`, `>` in HTML-like text under `<!-- <` / `> -->`, `/`, `*`, `>` in JS-like text under
    `/* <` / `> */`: partial matches of a delimiter in the text, none of them directly in front of a tag"""
    from . import gen
    from .proto import DEFAULT_CFG
    rng = random.Random(seed * 15485863 + 5)
    n = {"quick": 400, "thorough": 6000}[tier]
    out = []
    cfgs = [DEFAULT_CFG.to_json(), Cfg(targets=("a", "b")).to_json(), Cfg(now=0, targets=()).to_json()]
    for i in range(n):
        (ds, de), words = ((("<!-- <", "> -->"), HTML_WORDS) if i % 2 == 0 else (("/* <", "> */"), JS_WORDS))
        g = gen.DocGen(rng, depth=rng.choice([1, 2, 3]), p_unwrap=0.4, p_ready=0.7, p_skip=0.05, max_items=4)
        g.words = words + ["foo", "bar();"]
        items = g.doc()
        src = gen.render(items, gen.Spelling(ds, de), final_nl=rng.random() < 0.8)
        out.append(("RL", "realistic-text", src, ds, de, cfgs[i % len(cfgs)]))
    return out


# (time-limited name, removal-marker name, name of the unregistered tags): one is a proper suffix / prefix of another
AFFIX_NAMES = [("time-limited", "removal-marker", "limited"), ("time-limited", "removal-marker", "marker"),
               ("time-limited", "removal-marker", "time"), ("tl", "rm", "l"), ("tl", "rm", "m"), ("tl", "rm", "xtl"),
               ("tl", "rm", "arm"), ("tl", "rm", "t"), ("tl", "tlx", "zz"), ("xrm", "rm", "zz"), ("tl", "rm", "tl2")]


def affix_docs(seed, tier):
    """documents in which the name of one kind of tag is a proper suffix or prefix of the name of another (`limited`
    inside `time-limited`, `l` / `xtl` next to `tl`), with stray opening and closing tags of the shorter and the longer
    name among the plain lines - under `<` `>` and under `<!--` `-->`, where a plain comment is itself a tag"""
    from . import gen
    rng = random.Random(seed * 32452843 + 11)
    n = {"quick": 330, "thorough": 5500}[tier]
    out = []
    for i in range(n):
        tl, rm, other = AFFIX_NAMES[i % len(AFFIX_NAMES)]
        ds, de = ("<", ">") if i % 3 else ("<!--", "-->")
        sp = gen.Spelling(ds, de, tl=tl, rm=rm, other=other)
        g = gen.DocGen(rng, depth=rng.choice([1, 2, 3]), p_unwrap=0.25, p_ready=0.7, p_skip=0.05, max_items=4,
                       kinds=("tl", "rm", "zz", "zz"), p_inline=0.2 if i % 4 == 0 else 0.0)
        blank = " " if ds == "<!--" else ""
        g.words = ["foo", "bar();", "x"] + [ds + blank + w + blank + de for w in
                                            (other, "/" + other, other + " offer", "/" + tl, "/" + rm, tl, "//" + other)]
        items = g.doc()
        src = gen.render(items, sp, final_nl=rng.random() < 0.8)
        cfg = Cfg(tl=tl, rm=rm, targets=("a", "b") if i % 2 else ("a",))
        out.append(("AF", "affix-names", src, ds, de, cfg.to_json()))
    return out


# delimiter pairs of very different lengths (and short tag names): a tag can be shorter than one of its delimiters
LOPSIDED_DELIMS = [("// <", ">"), ("<!-- chiritori:", ">"), ("<", "> ----------"), ("/*************** <", "*/"), ("[", "]]]]]]]]"),
                   ("<!-- <", ">"), ("{", "}"), ("<", "/>")]


def lopsided_docs(seed, tier):
    """documents under delimiter pairs one of which is much longer than the other, with one-letter tag names, so that
    a whole tag (the closing tag in particular) is shorter than the longer delimiter"""
    from . import gen
    rng = random.Random(seed * 49979687 + 3)
    n = {"quick": 240, "thorough": 4000}[tier]
    out = []
    for i in range(n):
        ds, de = LOPSIDED_DELIMS[i % len(LOPSIDED_DELIMS)]
        tl, rm = [("t", "r"), ("tl", "rm"), ("time-limited", "removal-marker")][(i // len(LOPSIDED_DELIMS)) % 3]
        sp = gen.Spelling(ds, de, tl=tl, rm=rm, other="z")
        g = gen.DocGen(rng, depth=rng.choice([1, 2, 3]), p_unwrap=0.3, p_ready=0.7, p_skip=0.05, max_items=4)
        g.words = ["foo", "bar();", "x", "é y"]
        items = g.doc()
        src = gen.render(items, sp, final_nl=rng.random() < 0.8)
        cfg = Cfg(tl=tl, rm=rm, targets=("a", "b") if i % 2 else ("a",))
        out.append(("LS", "lopsided-delimiters", src, ds, de, cfg.to_json()))
    return out


def cases_for(prop, seed, tier, Case):
    ops = getattr(prop, "shared_ops", None)
    if not ops:
        return
    for (d, label, src, ds, de, cfgj) in pool(seed, tier):
        if d == prop.id:
            continue
        cfg = Cfg.from_json(cfgj)
        yield Case("shared:%s:%s" % (d, label), [req(op, src, ds, de, cfg) for op in ops],
                   {"replay": True, "corr_only": True, "src": src, "ds": ds, "de": de, "cfg": cfgj, "shared_ops": ops},
                   key=("shared", src, ds, cfgj.get("now"), tuple(cfgj.get("targets", []))))
