"""Line protocol shared by the Rust harness and the Lean driver."""
import os, subprocess, tempfile, threading

HARNESS = "/verif/.build/cargo/debug/verif-harness"
DRIVER = "/verif/lean/.lake/build/bin/chiritori_driver"

def hx(s):
    return s.encode("utf-8").hex()

def unhx(h):
    return bytes.fromhex(h).decode("utf-8")

class Cfg:
    __slots__ = ("tl", "rm", "now", "off", "targets", "nanos")
    def __init__(self, tl="tl", rm="rm", now=1577836800, off="+00:00", targets=("a",), nanos=0):
        self.tl, self.rm, self.now, self.off, self.targets, self.nanos = tl, rm, now, off, tuple(targets), nanos
    def key(self):
        return (self.tl, self.rm, self.now, self.off, self.targets, self.nanos)
    def to_json(self):
        return {"tl": self.tl, "rm": self.rm, "now": self.now, "nanos": self.nanos, "off": self.off, "targets": list(self.targets)}
    @staticmethod
    def from_json(d):
        return Cfg(d["tl"], d["rm"], d["now"], d["off"], d["targets"], d.get("nanos", 0))

DEFAULT_CFG = Cfg()

def req(op, src="", ds="<", de=">", cfg=DEFAULT_CFG, args=(), extra=()):
    now = str(cfg.now) if not cfg.nanos else "%d.%d" % (cfg.now, cfg.nanos)
    t = "-" if not cfg.targets else ",".join("x" + hx(t) for t in cfg.targets)
    a = "-" if not args else ",".join(str(int(x)) for x in args)
    f = [op, hx(src), hx(ds), hx(de), hx(cfg.tl), hx(cfg.rm), now, hx(cfg.off), t, a]
    f.extend(extra)
    return "\t".join(f)

def _run(binary, lines, jobs):
    """Run `binary` over request lines, in `jobs` parallel chunks; returns reply lines."""
    n = len(lines)
    if n == 0:
        return []
    jobs = max(1, min(jobs, (n + 499) // 500))
    chunk = (n + jobs - 1) // jobs
    outs = [None] * jobs
    def work(i):
        part = lines[i * chunk:(i + 1) * chunk]
        p = subprocess.run([binary], input=("\n".join(part) + "\n").encode(), stdout=subprocess.PIPE, stderr=subprocess.PIPE)
        o = p.stdout.decode().split("\n")
        if o and o[-1] == "":
            o.pop()
        if len(o) != len(part):
            raise RuntimeError("%s: %d replies for %d requests (rc=%s)\n%s" % (binary, len(o), len(part), p.returncode, p.stderr.decode()[-2000:]))
        outs[i] = o
    ths = [threading.Thread(target=work, args=(i,)) for i in range(jobs)]
    for t in ths: t.start()
    for t in ths: t.join()
    res = []
    for o in outs:
        if o is None:
            raise RuntimeError("worker failed for " + binary)
        res.extend(o)
    return res

JOBS = int(os.environ.get("VERIF_JOBS", "16"))

def run_impl(lines, jobs=None):
    return _run(HARNESS, lines, jobs or JOBS)

def run_model(lines, jobs=None):
    return _run(DRIVER, lines, jobs or JOBS)

def parse_reply(r):
    """-> ('ok', payload) | ('panic', class)"""
    f = r.split("\t")
    if f[0] == "ok":
        return ("ok", f[1] if len(f) > 1 else "")
    return ("panic", f[1] if len(f) > 1 else "?")

def same(ri, rm):
    a, b = parse_reply(ri), parse_reply(rm)
    if a[0] != b[0]:
        return False
    if a[0] == "panic":
        return True   # panic classes are informational
    return a[1] == b[1]
