"""Property definitions C11-C20."""
import itertools, json, os, re, subprocess, tempfile

from . import gen, proto
from .engine import Case
from .proto import Cfg, req, parse_reply, unhx, hx
from .props_a import Base, quick, describe_src, C01, C02

ANSI = re.compile(r"\x1b\[\d+m")


def isblank(l):
    return l.strip(" \t") == ""


def nonblank(lines):
    return [l for l in lines if not isblank(l)]


class BlockBase(Base):
    """documents come from the AST generator; the case keeps the AST so the oracle knows the intended structure"""
    ast_kw = {}
    spellings = [gen.Spelling()]

    def mk_items(self, items, sp, final_nl, label, cfg=None):
        src = gen.render(items, sp, final_nl)
        c = Case(label, [req("clean", src, sp.ds, sp.de, cfg or Cfg(tl=sp.tl, rm=sp.rm))],
                 {"replay": True, "src": src, "ds": sp.ds, "de": sp.de, "cfg": (cfg or Cfg(tl=sp.tl, rm=sp.rm)).to_json()},
                 key=(src, sp.ds, sp.de))
        c.meta["_layout"] = gen.layout(items, sp)
        return c

    def mk(self, src, ds, de, cfg, label="replay"):
        # replay of a stored text: the structure is recovered from the text by the line-based reference
        c = Case(label, [req("clean", src, ds, de, cfg)], {"replay": True, "src": src, "ds": ds, "de": de, "cfg": cfg.to_json()}, key=(src, ds, de))
        c.meta["_layout"] = layout_from_text(src, ds, de, cfg)
        return c

    shrink_candidates = None


def scan_attrs(body):
    """(name, {attr: value|None}) of a tag body, after the C09 grammar"""
    toks = re.findall(r"""([^\s=]+)\s*=\s*'([^']*)'|([^\s=]+)\s*=\s*"([^"]*)"|([^\s=]+)""", body)
    words = []
    for t in toks:
        if t[0]:
            words.append((t[0], t[1]))
        elif t[2]:
            words.append((t[2], t[3]))
        else:
            words.append((t[4], None))
    if not words:
        return None, {}
    ad = {}
    for n, v in words[1:]:
        ad.setdefault(n, v)
    return words[0][0], ad


def layout_from_text(src, ds, de, cfg):
    """Rebuild the reference layout of a block document from its text (replays and corpus entries): a line whose
    stripped text is one tag is a tag line; tags pair by name; readiness by the rules of the generator."""
    lines = src.split("\n")
    if lines and lines[-1] == "":
        lines = lines[:-1]
    tagre = re.compile(r"^[ \t]*" + re.escape(ds) + r"(.*)" + re.escape(de) + r"$", re.S)
    texts = {}

    def parse_tag(l):
        m = tagre.match(l)
        if not m or ds in m.group(1) or de in m.group(1):
            return None, {}
        return scan_attrs(m.group(1))

    def build(i, stop_name):
        items = []
        while i < len(lines):
            name, ad = parse_tag(lines[i])
            if name is None:
                items.append(gen.Line(lines[i]))
                i += 1
                continue
            if name.startswith("/"):
                if stop_name is not None and name.lstrip("/") == stop_name:
                    return items, i
                items.append(gen.Line(lines[i]))
                i += 1
                continue
            sub, j = build(i + 1, name)
            if j >= len(lines):
                items.append(gen.Line(lines[i]))
                items.extend(sub)
                return items, j
            kind = "rm" if name == cfg.rm else "tl" if name == cfg.tl else "zz"
            e = gen.El(kind, False, "skip" in ad, "unwrap-block" in ad)
            e.indent = lines[i][:gen.lead_ws(lines[i] + "x")]
            if kind == "tl":
                e.to = ad.get("to")
                e.ready = e.to is not None and e.to == gen.READY_T and cfg.now >= 946684800
            elif kind == "rm":
                e.name = ad.get("name")
                e.ready = e.name is not None and e.name in cfg.targets
            texts[id(e)] = (lines[i][len(e.indent):], lines[j][gen.lead_ws(lines[j] + "x"):])
            if e.unwrap and len(sub) >= 2 and isinstance(sub[0], gen.Line) and isinstance(sub[-1], gen.Line):
                e.wrap_open = sub[0].text[len(e.indent):] if sub[0].text.startswith(e.indent) else sub[0].text
                e.wrap_close = sub[-1].text[len(e.indent):] if sub[-1].text.startswith(e.indent) else sub[-1].text
                e.children = sub[1:-1]
            else:
                e.unwrap = False
                e.children = sub
            items.append(e)
            i = j + 1
        return items, i

    items, _ = build(0, None)
    keep = items

    class RawSp(gen.Spelling):
        def open_tag(self, e):
            return texts[id(e)][0]

        def close_tag(self, e):
            return texts[id(e)][1]
    lay = gen.layout(items, RawSp(ds, de, cfg.tl, cfg.rm))
    lay.append(gen.LInfo("", False, (), "_keepalive", keep, False)) if False else None
    return lay


def out_lines(text):
    ls = text.split("\n")
    if ls and ls[-1] == "":
        ls = ls[:-1]
    return ls


# ============================================================================================ C11
class C11(BlockBase):
    id = "C11"
    shared_ops = ["clean"]
    rule = ("one case = clean on one block document containing unwrap-block elements with 0..6 lines between the tags (blank, indented, "
            "multi-byte wrapper and inner lines; ready/pending default elements nested at every inner position); reference: the four "
            "lines (tag, wrapper, wrapper, tag) of an unwrappable ready element lose their text, every other non-blank line keeps its "
            "text, an element with fewer than two lines between the tags (or on one line) is untouched; compared on the stripped "
            "non-blank lines; non-trivial = a ready unwrap-block element is present")

    def cases(self, rng, tier):
        n = quick(tier, 4000, 150000)
        for i in range(n):
            g = gen.DocGen(rng, depth=rng.choice([1, 2, 3]), p_unwrap=0.6, unique=True, p_ready=0.7)
            items = g.doc()
            yield self.mk_items(items, gen.Spelling(), rng.random() < 0.7, "ast")
        # the k = 0, 1, 2, 3 boundary, exhaustively over small line shapes
        shapes = ["{", "}", "  code", "", "  ", "\tx", "é"]
        for k in range(0, quick(tier, 3, 4) + 1):
            for body in itertools.product(shapes, repeat=k):
                for ind in ("", "  "):
                    lines = ["pre", ind + gen.U_OPEN] + [ind + b for b in body] + [ind + gen.U_CLOSE, "post"]
                    src = "\n".join(lines) + "\n"
                    c = Case("k-boundary", [req("clean", src)], {"replay": True, "src": src, "ds": "<", "de": ">", "cfg": proto.DEFAULT_CFG.to_json()}, key=src)
                    if k >= 2:
                        exp = ["pre"] + [b.strip(" \t") for b in body[1:-1] if not isblank(b)] + ["post"]
                    else:
                        exp = [l.strip(" \t") for l in lines if not isblank(l)]
                    c.meta["_expect_stripped"] = exp
                    c.meta["_k"] = k
                    yield c
        # the same boundary in a CR LF file (the carriage return is the last character of every line, also of the tag
        # lines and the wrapper lines); compared on the lines stripped of blanks and carriage returns
        shapes_cr = ["{", "}", "  code", "\tx", "é", "x  "]
        for k in range(0, quick(tier, 3, 4) + 1):
            for body in itertools.product(shapes_cr, repeat=k):
                for ind in ("", "  "):
                    lines = ["pre", ind + gen.U_OPEN] + [ind + b for b in body] + [ind + gen.U_CLOSE, "post"]
                    src = "\r\n".join(lines) + "\r\n"
                    c = Case("k-boundary-crlf", [req("clean", src)], {"replay": True, "src": src, "ds": "<", "de": ">", "cfg": proto.DEFAULT_CFG.to_json()}, key=src)
                    if k >= 2:
                        exp = ["pre"] + [b.strip(" \t") for b in body[1:-1]] + ["post"]
                    else:
                        exp = [l.strip(" \t") for l in lines]
                    c.meta["_expect_stripped"] = exp
                    c.meta["_k"] = k
                    c.meta["_crlf"] = True
                    yield c
        # very long wrapper lines and inner lines (no scan may be bounded by a buffer size)
        for w in (255, 256, 1022, 1023, 1024, 1500, 4096, 5000):
            for which in ("open", "close", "inner"):
                body = ["{ " + "o" * (w if which == "open" else 3), "  in1" + "i" * (w if which == "inner" else 0), "  in2", "} " + "c" * (w if which == "close" else 3)]
                lines = ["pre", "  " + gen.U_OPEN] + ["  " + b for b in body] + ["  " + gen.U_CLOSE, "post"]
                src = "\n".join(lines) + "\n"
                c = Case("long-lines", [req("clean", src)], {"replay": True, "src": src, "ds": "<", "de": ">", "cfg": proto.DEFAULT_CFG.to_json()}, key=src)
                c.meta["_expect_stripped"] = ["pre"] + [b.strip(" \t") for b in body[1:-1]] + ["post"]
                c.meta["_k"] = 4
                yield c
        one = "a " + gen.U_OPEN + " b " + gen.U_CLOSE + " c\n"
        c = Case("one-line", [req("clean", one)], {"replay": True, "src": one, "ds": "<", "de": ">", "cfg": proto.DEFAULT_CFG.to_json()}, key=one)
        c.meta["_expect_stripped"] = [one.strip("\n")]
        c.meta["_k"] = 0
        yield c

    def oracle(self, case, impl, spec):
        k, v = parse_reply(impl[0])
        if k != "ok":
            return {"fail": "panic", "detail": v, "nontrivial": True, "tags": ["panic"]}
        got = [l.strip(" \t") for l in nonblank(out_lines(unhx(v)))]
        if case.meta.get("_crlf"):
            got = [l.strip(" \t\r") for l in out_lines(unhx(v)) if l.strip(" \t\r")]
        if "_expect_stripped" in case.meta:
            exp = case.meta["_expect_stripped"]
            tags = ["k=%d" % case.meta["_k"]]
            nt = True
        else:
            lay = case.meta["_layout"]
            exp = [l.text.strip(" \t") for l in lay if not l.removed and not isblank(l.text)]
            nt = any(l.role == "wrap_open" and l.removed and not l.under_ready for l in lay)
            tags = ["unwrapped" if nt else "no-unwrap"]
        if got != exp:
            return {"fail": "C11-lines", "detail": "non-blank lines %r, expected %r" % (got, exp), "nontrivial": nt, "tags": tags}
        return {"nontrivial": nt, "tags": tags}


# ============================================================================================ C12
class C12(BlockBase):
    id = "C12"
    shared_ops = ["clean"]
    rule = ("one case = clean on one block document with unwrap-blocks (indentation units 2 spaces / 4 spaces / tab, tag indent 0-2 units, "
            "inner lines below/at/above the first inner line, nesting depth 1-3, block on the first line or later, unique line texts); "
            "reference: every surviving non-blank line keeps its text and loses exactly the indentation columns in the union of "
            "[t, t+s) over its enclosing unwrapped blocks; non-trivial = some surviving line lies inside an unwrapped block with s > 0; "
            "documents whose first line is the opening tag of an unwrapped element fall in the region of known finding D11")

    def cases(self, rng, tier):
        n = quick(tier, 5000, 200000)
        for i in range(n):
            g = gen.DocGen(rng, depth=rng.choice([1, 2, 3]), p_unwrap=0.7, unique=True, p_ready=0.8, p_skip=0.05, max_items=3)
            items = g.doc()
            if i % 4 != 0 and items and isinstance(items[0], gen.El):
                items.insert(0, gen.Line("head#0"))
            # vary inner indentation: some children below / above the block's indentation
            for e in gen.all_elements(items):
                if e.unwrap and rng.random() < 0.3:
                    for ch in e.children:
                        if isinstance(ch, gen.Line) and ch.text and rng.random() < 0.4:
                            ch.text = rng.choice(["", g.unit, g.unit * 3, " "]) + ch.text.lstrip(" \t")
            # removed elements on the wrapper lines of an unwrapped block: the whole line goes with the tag part, so the
            # reference is unchanged, but the marker list of the block now starts / ends with absorbed children
            label = "ast"
            if i % 3 == 0:
                sp0 = gen.Spelling()
                def inl():
                    ie = gen.El(rng.choice(["rm", "rm", "tl"]), rng.random() < 0.85)
                    return sp0.open_tag(ie) + rng.choice(["", "x", "é"]) + sp0.close_tag(ie)
                for e in gen.all_elements(items):
                    if e.unwrap and e.effective_ready() and rng.random() < 0.6:
                        label = "ast+wrapper-tags"
                        e.wrap_open = rng.choice(["{ ", "if (a ", "é "]) + rng.choice([" ", ""]).join(inl() for _ in range(rng.choice([1, 1, 2]))) + rng.choice(["", " y", ") {"])
                        if rng.random() < 0.3:
                            e.wrap_close = rng.choice(["} ", ""]) + inl() + rng.choice(["", " é"])
            yield self.mk_items(items, gen.Spelling(), rng.random() < 0.8, label)
        # two unwrapped blocks inside each other with independently chosen indentations of every line: the inner block's
        # ranges may lie inside, overlap or precede the outer block's ranges on a line
        for i in range(quick(tier, 1500, 40000)):
            unit = rng.choice([" ", "  ", "\t"])
            ind = lambda: unit * rng.randint(0, 4)
            cnt = [0]
            def ln():
                cnt[0] += 1
                return gen.Line(ind() + "w#%d" % cnt[0])
            inner = gen.El(rng.choice(["tl", "rm"]), True, unwrap=True, indent=ind())
            inner.wrap_open, inner.wrap_close = "{", "}"
            inner.children = [ln() for _ in range(rng.randint(1, 3))]
            if rng.random() < 0.3:
                third = gen.El(rng.choice(["tl", "rm"]), True, unwrap=True, indent=ind())
                third.wrap_open, third.wrap_close = "[", "]"
                third.children = [ln() for _ in range(rng.randint(1, 2))]
                inner.children.insert(rng.randint(0, len(inner.children)), third)
            outer = gen.El(rng.choice(["tl", "rm"]), True, unwrap=True, indent=ind())
            outer.wrap_open, outer.wrap_close = "(", ")"
            outer.children = [ln() for _ in range(rng.randint(0, 2))] + [inner] + [ln() for _ in range(rng.randint(0, 2))]
            items = [gen.Line("head#0"), outer, gen.Line("tail#0")]
            yield self.mk_items(items, gen.Spelling(), rng.random() < 0.8, "nested-ragged")
        # very wide indentation (no scan of a line's indentation may be bounded by a buffer size)
        for w in (63, 64, 65, 100, 255, 256, 257, 300, 1100):
            for tag_ind in (0, 2, w - 1, w, w + 3):
                for first in (2, w, w + 4):
                    cnt = [0]
                    def ln(k):
                        cnt[0] += 1
                        return gen.Line(" " * k + "w#%d" % cnt[0])
                    e = gen.El("rm", True, unwrap=True, indent=" " * tag_ind)
                    e.wrap_open, e.wrap_close = "{", "}"
                    e.children = [ln(first), ln(w), ln(w + 7), ln(3), ln(first + 1)]
                    yield self.mk_items([gen.Line("head#0"), e, gen.Line("tail#0")], gen.Spelling(), True, "wide-indent")
        # white space outside ASCII (ideographic space, no-break space, em space, vertical tab, form feed) right behind the
        # indentation of inner lines - the first inner line in particular: it is text, not indentation
        for i in range(quick(tier, 1200, 30000)):
            g = gen.DocGen(rng, depth=rng.choice([1, 2]), p_unwrap=0.8, unique=True, p_ready=0.9, p_skip=0.0, max_items=3)
            items = g.doc()
            if items and isinstance(items[0], gen.El):
                items.insert(0, gen.Line("head#0"))
            gen.unicode_space_lines(items, rng, g.unit)
            yield self.mk_items(items, gen.Spelling(), rng.random() < 0.8, "unicode-space-indent")

    def first_line_unwrap(self, lay):
        """the opening tag of an unwrapped ready element is on line 1, or on line 2 after an empty line 1
        (the line break before it is byte 0, which the finders never examine)"""
        def is_u(l):
            return l.role == "open" and l.el is not None and l.el.unwrap and l.removed
        return bool(lay) and (is_u(lay[0]) or (len(lay) > 1 and lay[0].text == "" and is_u(lay[1])))

    def oracle(self, case, impl, spec):
        k, v = parse_reply(impl[0])
        if k != "ok":
            return {"fail": "panic", "detail": v, "nontrivial": True, "tags": ["panic"]}
        lay = case.meta["_layout"]
        got = nonblank(out_lines(unhx(v)))
        surv = [l for l in lay if not l.removed and not isblank(l.text)]
        exp = [gen.dedent(l.text, l.blocks) for l in surv]
        nt = any((not l.removed) and any(s > 0 for _, s in l.blocks) for l in lay)
        depth = max([len(l.blocks) for l in lay if not l.removed] + [0])
        tags = ["depth=%d" % depth, "first-line" if self.first_line_unwrap(lay) else "later"]
        # lines outside every unwrapped body are C13's subject: only their text is compared here
        same = len(got) == len(exp) and all((g == e) if l.blocks else (g.strip(" \t") == e.strip(" \t")) for g, e, l in zip(got, exp, surv))
        if not same:
            bad = next(((g, e) for g, e in zip(got + [None] * len(exp), exp + [None] * len(got)) if g != e), (None, None))
            return {"fail": "C12-indent", "detail": "line %r, expected %r" % bad, "nontrivial": nt, "tags": tags}
        return {"nontrivial": nt, "tags": tags}

    def region_first_line_unwrap(self, case, verdict):
        return self.first_line_unwrap(case.meta["_layout"])

    def region_indented_ready_tag_on_line_1(self, case, verdict):
        lay = case.meta["_layout"]
        return bool(lay) and lay[0].removed and lay[0].text[:1] in (" ", "\t") and not self.first_line_unwrap(lay)


# ============================================================================================ C13
class C13(BlockBase):
    id = "C13"
    shared_ops = ["clean"]

    def spec_reqs(self, case, impl):
        k, v = parse_reply(impl[0])
        if k != "ok":
            return []
        m = case.meta
        return [req("spec", m["src"], m["ds"], m["de"], Cfg.from_json(m["cfg"]), extra=["C13", v])]
    rule = ("one case = clean on one block document without unwrap-blocks (spaces/tabs, blank and whitespace-only lines in any number "
            "around blocks, nesting in pending parents, multi-byte lines, with/without final newline; all (b,a) in 0..4 layouts); reference: "
            "(a) the non-blank output lines are the surviving non-blank input lines byte for byte, (b) an isolated removed block with b/a "
            "blank lines before/after leaves a+b-[a>0 and b>0] blank lines between its neighbours; non-trivial = at least one line removed; "
            "an indented ready tag on line 1 is the region of known finding D7")

    def cases(self, rng, tier):
        n = quick(tier, 5000, 200000)
        for i in range(n):
            g = gen.DocGen(rng, depth=rng.choice([1, 2, 3]), allow_unwrap=False, unique=True, p_blank=0.35, p_wsonly=0.3, p_ready=0.6)
            items = g.doc()
            yield self.mk_items(items, gen.Spelling(), rng.random() < 0.7, "ast")
        # all (b, a) layouts around one block
        for b in range(0, 5):
            for a in range(0, 5):
                for ind in ("", "  ", "\t"):
                    for ws in ("", "  "):
                        for fin in (True, False):
                            lines = [ind + "before#1"] + [ws] * b + [ind + "<rm name='a'>", ind + "  gone", ind + "</rm>"] + [ws] * a + [ind + "after#2"]
                            src = "\n".join(lines) + ("\n" if fin else "")
                            c = Case("ba-layout", [req("clean", src)], {"replay": True, "src": src, "ds": "<", "de": ">", "cfg": proto.DEFAULT_CFG.to_json()}, key=src)
                            items = [gen.Line(l) for l in lines[:1 + b]]
                            e = gen.El("rm", True, indent=ind)
                            e.children = [gen.Line(ind + "  gone")]
                            items.append(e)
                            items += [gen.Line(l) for l in lines[4 + b:]]
                            c.meta["_layout"] = gen.layout(items, gen.Spelling())
                            yield c

        # very wide whitespace-only lines next to the block, very wide indentation of the tags
        for w in (255, 256, 257, 300, 1100):
            for b in range(0, 3):
                for a in range(0, 3):
                    for ind in ("", " " * w):
                        ws = " " * w
                        lines = ["before#1"] + [ws] * b + [ind + "<rm name='a'>", ind + "  gone", ind + "</rm>"] + [ws] * a + ["after#2"]
                        src = "\n".join(lines) + "\n"
                        c = Case("wide-blank-lines", [req("clean", src)], {"replay": True, "src": src, "ds": "<", "de": ">", "cfg": proto.DEFAULT_CFG.to_json()}, key=src)
                        items = [gen.Line(l) for l in lines[:1 + b]]
                        e = gen.El("rm", True, indent=ind)
                        e.children = [gen.Line(ind + "  gone")]
                        items.append(e)
                        items += [gen.Line(l) for l in lines[4 + b:]]
                        c.meta["_layout"] = gen.layout(items, gen.Spelling())
                        yield c

    def oracle(self, case, impl, spec):
        k, v = parse_reply(impl[0])
        if k != "ok":
            return {"fail": "panic", "detail": v, "nontrivial": True, "tags": ["panic"]}
        lay = case.meta["_layout"]
        out = unhx(v)
        ol = out_lines(out)
        exp = [l.text for l in lay if not l.removed and not isblank(l.text)]
        got = nonblank(ol)
        nt = any(l.removed for l in lay)
        tags = ["removed" if nt else "nothing-removed"]
        # the Lean predicate of `c13_lines_eq`, evaluated on the implementation's output
        if spec:
            r = parse_reply(spec[0])[1]
            tags.append("lean-hypothesis:" + ("outside" if r == "vacuous" else "met"))
            if r == "false":
                return {"fail": "C13-spec", "detail": "Spec.c13Holds = false on the implementation's output %r" % out, "nontrivial": nt, "tags": tags}
        if got != exp:
            bad = next(((g, e) for g, e in zip(got + [None] * len(exp), exp + [None] * len(got)) if g != e), (None, None))
            return {"fail": "C13-lines", "detail": "(a) non-blank line %r, expected %r" % bad, "nontrivial": nt, "tags": tags}
        # (b) isolated blocks
        n = len(lay)
        onb = [i for i, l in enumerate(ol) if not isblank(l)]
        inb = [i for i, l in enumerate(lay) if not l.removed and not isblank(l.text)]
        pos = dict(zip(inb, onb))
        i = 0
        checked = 0
        while i < n:
            if not lay[i].removed:
                i += 1
                continue
            j = i
            while j + 1 < n and lay[j + 1].removed:
                j += 1
            # the run i..j must be one maximal ready element (adjacent blocks form one run: skip those)
            single = lay[i].role == "open" and lay[j].role == "close" and lay[i].el is lay[j].el
            b = 0
            p = i - 1
            while p >= 0 and not lay[p].removed and isblank(lay[p].text):
                b += 1
                p -= 1
            a = 0
            q = j + 1
            while q < n and not lay[q].removed and isblank(lay[q].text):
                a += 1
                q += 1
            if single and p >= 0 and not lay[p].removed and q < n and not lay[q].removed:
                expect = a + b - (1 if a > 0 and b > 0 else 0)
                gotb = pos[q] - pos[p] - 1
                checked += 1
                if gotb != expect:
                    return {"fail": "C13-blank-lines", "detail": "(b) block at lines %d-%d with b=%d a=%d leaves %d blank lines, expected %d" % (i + 1, j + 1, b, a, gotb, expect),
                            "nontrivial": True, "tags": tags}
            i = j + 1
        if checked:
            tags.append("isolated-blocks")
        return {"nontrivial": nt, "tags": tags}

    def region_indented_ready_tag_on_line_1(self, case, verdict):
        lay = case.meta["_layout"]
        return bool(lay) and lay[0].removed and lay[0].text[:1] in (" ", "\t")


# ============================================================================================ C14
class C14(C02):
    id = "C14"
    shared_ops = ["clean"]
    spec_name = "C14"
    rule = ("one case = clean on one document (block, inline, mutated, junk; all delimiter pairs); the Lean predicate Spec.c14Holds: the "
            "trimmed maximal stretches outside the ready extents (cut line by line inside unwrapped bodies) occur verbatim, in order and "
            "without overlap in the implementation's output; non-trivial = at least one ready extent")

    def cases(self, rng, tier):
        n = quick(tier, 2500, 100000)
        from .props_a import doc_stream
        for d, ds, de in doc_stream(rng, tier, n, n, n // 2, n // 4):
            yield self.mk(d, ds, de, proto.DEFAULT_CFG, "doc")
        for i in range(n):
            items = gen.g_ast(rng, depth=rng.choice([1, 2, 3]), p_inline=0.4, unique=True)
            yield self.mk(gen.render(items, final_nl=rng.random() < 0.7), "<", ">", proto.DEFAULT_CFG, "inline")
        # one removal of more than 64 KiB (and of 255 / 256 / 65535 bytes) in front of other removals: the positions of the
        # later seams are shifted by the whole length (no offset may be kept in a small integer)
        for nbytes in quick(tier, (256, 66000), (255, 256, 257, 65535, 65536, 66000)):
            body = "x\n" * (nbytes // 2)
            d = ("K0\n<rm name='a'>\n" + body + "</rm>\nT1\n\nT2\n  <rm name='a'>y</rm>\nT3\n\n<rm name='a' unwrap-block>\n{\n    T4\n}\n</rm>\nT5\n")
            yield self.mk(d, "<", ">", proto.DEFAULT_CFG, "big-removal")


# ============================================================================================ C15 / C16 / C17
def byte_layout(items, sp):
    """source text plus, per element, its byte extents: (el, [(start, end), ...])"""
    lines = []
    gen.render_lines(items, sp, lines)
    offs = []
    o = 0
    for l in lines:
        offs.append(o)
        o += len(l.encode()) + 1
    out = []
    idx = [0]

    def walk(its):
        for it in its:
            if isinstance(it, gen.Line):
                if it.inline is not None:
                    s = offs[idx[0]] + len(it.pre.encode())
                    e = s + len((sp.open_tag(it.inline) + it.mid + sp.close_tag(it.inline)).encode())
                    out.append((it.inline, [(s, e)], None))
                idx[0] += 1
                continue
            i0 = idx[0]
            s = offs[i0] + len(it.indent.encode())
            rec = [it, None, None]
            out.append(rec)
            idx[0] += 1
            if it.unwrap:
                idx[0] += 1
            walk(it.children)
            if it.unwrap:
                idx[0] += 1
            i1 = idx[0]
            e = offs[i1] + len((it.indent + sp.close_tag(it)).encode())
            idx[0] += 1
            if it.unwrap:
                head_end = offs[i0 + 1] + len(lines[i0 + 1].encode())
                tail_start = offs[i1 - 1]
                rec[1] = [(s, head_end), (tail_start, e)]
            else:
                rec[1] = [(s, e)]
    walk(items)
    return lines, [(r[0], r[1]) for r in out]


def ref_item(b, s, e):
    """independent reference of build_pretty_string_item without colours (byte based)"""
    ls = b.rfind(b"\n", 0, s) + 1
    le = b.find(b"\n", e - 1)
    le = len(b) if le < 0 else le
    ls_last = b.rfind(b"\n", 0, e - 1) + 1
    first = b.count(b"\n", 0, s) + 1
    last = b.count(b"\n", 0, e - 1) + 1
    # `str::lines` strips a carriage return that precedes the line break (every line shown here is followed by one)
    lines = [l[:-1] if l.endswith("\r") else l for l in b[ls:le].decode().split("\n")]

    def col(seg):
        return sum(4 if c == 9 else 1 for c in seg)
    res = " " * (9 + col(b[ls:s])) + "_start\n"
    for i, l in zip(range(first, last + 1), lines):
        res += "%7d |%s\n" % (i, l.replace("\t", "    "))
    res += " " * (9 + col(b[ls_last:e]) - 1) + "‾end"
    return (first, last, res)


def parse_markers(s):
    out = []
    for w in s.split(" "):
        if not w:
            continue
        f = w.split(":")
        a, b = f[0].split("-")
        out.append((int(a), int(b), None if f[1] == "-" else int(f[1])) + ((f[2],) if len(f) > 2 else ()))
    return out


class ListBase(Base):
    ops = ["trace", "list:json", "list:pretty", "list_all:json", "list_all:pretty", "clean"]
    shared_ops = ["trace", "list:json", "list:pretty", "list_all:json", "list_all:pretty"]

    def mk_items(self, items, sp, final_nl, label):
        src = gen.render(items, sp, final_nl)
        cfg = Cfg(tl=sp.tl, rm=sp.rm)
        c = Case(label, [req(op, src, sp.ds, sp.de, cfg) for op in self.ops],
                 {"replay": True, "src": src, "ds": sp.ds, "de": sp.de, "cfg": cfg.to_json()}, key=(src, sp.ds))
        c.meta["_extents"] = byte_layout(items, sp)[1]
        return c

    def mk(self, src, ds, de, cfg, label="replay"):
        return Case(label, [req(op, src, ds, de, cfg) for op in self.ops],
                    {"replay": True, "src": src, "ds": ds, "de": de, "cfg": cfg.to_json()}, key=(src, ds))

    def docs(self, rng, tier, n, leading_nl=False):
        for i in range(n):
            g = gen.DocGen(rng, depth=rng.choice([1, 2, 3]), unique=False, p_inline=0.25, p_ready=0.5, p_skip=0.1, max_items=4)
            items = g.doc()
            sp = gen.Spelling(*gen.SAFE_DELIMS[i % len(gen.SAFE_DELIMS)]) if i % 5 == 0 else gen.Spelling()
            if leading_nl:
                items.insert(0, gen.Line(""))
            elif items and isinstance(items[0], gen.Line) and items[0].inline is None and items[0].text == "":
                items[0].text = "x"
            yield self.mk_items(items, sp, rng.random() < 0.7, "ast-leadnl" if leading_nl else "ast")

    def multi_inline(self, rng, n):
        """several regions starting (or ending) on one line, some of them running over the following lines"""
        sp = gen.Spelling()
        for i in range(n):
            lines = []
            for _ in range(rng.randint(1, 4)):
                parts = [rng.choice(["", "a", "\tb ", "é "])]
                for _ in range(rng.choice([0, 1, 2, 2, 3])):
                    e = gen.El(rng.choice(["tl", "rm"]), rng.random() < 0.8)
                    body = rng.choice(["x", "", "y\nz", "é", "\n", "p\n\tq\n"])
                    parts.append(sp.open_tag(e) + body + sp.close_tag(e) + rng.choice(["", "c", " ", "\t"]))
                lines.append("".join(parts))
            src = "\n".join(lines) + ("\n" if rng.random() < 0.7 else "")
            if src.startswith("\n"):
                src = "x" + src
            yield self.mk(src, "<", ">", Cfg(), "multi-inline")

    def big_docs(self, rng, tier="quick"):
        """sizes beyond every small constant a list function might use: regions of more than a thousand lines, hundreds of
        lines in front of a region (also regions that begin / end on a line-break byte), line numbers of five digits,
        dozens of items, a very long line in front of a region"""
        sp = gen.Spelling()
        for body in quick(tier, (1024, 1025, 1026, 1100), (1023, 1024, 1025, 1026, 1100, 2100)):
            for head in quick(tier, (3,), (1, 3)):
                src = "".join("h%d\n" % i for i in range(head)) + "<rm name='a'>\n" + "".join("b%d\n" % i for i in range(body)) + "</rm>\nz\n"
                yield self.mk(src, "<", ">", Cfg(), "big-region")
        for head in quick(tier, (255, 256, 257, 300), (255, 256, 257, 300, 1030)):
            for shape in range(4):
                pre = "".join("l%d\n" % i for i in range(head))
                if shape == 0:
                    src = pre + "<rm name='a'>\nx\n</rm>\nz\n"
                elif shape == 1:      # unwrap-block with empty wrapper lines: the regions begin / end on a line break
                    src = pre + "<rm name='a' unwrap-block>\n\n  x\n\n</rm>\nz\n"
                elif shape == 2:
                    src = pre + "  a <rm name='a'>p\nq</rm> b\nz"
                else:
                    src = pre + "<tl to='%s' unwrap-block>\n{\n  <rm name='a'>y</rm>\n}\n</tl>\n" % gen.READY_T
                yield self.mk(src, "<", ">", Cfg(), "many-lines")
        for n_items in quick(tier, (9, 10, 11, 65, 100), (9, 10, 11, 64, 65, 70, 100, 130, 257)):
            src = "".join("k%d\n<rm name='a'>\nx%d\n</rm>\n" % (i, i) for i in range(n_items)) + "end\n"
            yield self.mk(src, "<", ">", Cfg(), "many-items")
        for w in quick(tier, (1024, 4096), (1023, 1024, 4096, 9000)):
            src = "q" * w + " <rm name='a'>x</rm> " + "r" * w + "\nz\n"
            yield self.mk(src, "<", ">", Cfg(), "long-line")

    def empty_wrapper(self, rng, n):
        """unwrap-blocks whose wrapper lines are empty or blank: their regions begin or end on a line-break byte"""
        sp = gen.Spelling()
        for i in range(n):
            lines = [rng.choice(["a", "  b", "x = 1;"]) for _ in range(rng.randint(1, 2))]
            for _ in range(rng.randint(1, 2)):
                e = gen.El(rng.choice(["tl", "rm"]), rng.random() < 0.8)
                e.unwrap = True
                ind = rng.choice(["", "  ", "\t"])
                lines.append(ind + sp.open_tag(e))
                lines.append(rng.choice(["", "", ind + "{", "  ", "\t"]))
                for _ in range(rng.randint(0, 3)):
                    lines.append(ind + rng.choice(["  x", "y", "", "\tz"]))
                lines.append(rng.choice(["", "", ind + "}", " ", "\t"]))
                lines.append(ind + sp.close_tag(e))
                lines.extend(rng.choice(["c", "", "  d"]) for _ in range(rng.randint(0, 2)))
            src = "\n".join(lines) + ("\n" if rng.random() < 0.7 else "")
            if src.startswith("\n"):
                src = "x" + src
            yield self.mk(src, "<", ">", Cfg(), "empty-wrapper")

    spec_name = None      # "C15" / "C17": Lean predicate evaluated on the implementation's regions
    spec_field = 0        # 0 = ready markers, 1 = all markers of the trace reply

    def spec_reqs(self, case, impl):
        if not self.spec_name:
            return []
        k, v = parse_reply(impl[0])
        if k != "ok":
            return []
        m = case.meta
        return [req("spec", m["src"], m["ds"], m["de"], Cfg.from_json(m["cfg"]), extra=[self.spec_name, v.split("|")[self.spec_field]])]

    def spec_verdict(self, spec):
        """-> (tag, failed)"""
        if not spec:
            return "spec:none", False
        r = parse_reply(spec[0])[1]
        if r == "vacuous":
            return "outside-space(tag on a wrapper line)", False
        return "in-space", r != "true"

    def unpack(self, impl):
        vals = []
        for r in impl:
            k, v = parse_reply(r)
            if k != "ok":
                return None, v
            vals.append(v)
        t = vals[0].split("|")
        return {"markers": parse_markers(t[0]), "all": parse_markers(t[1]), "removed": unhx(t[2]),
                "list_json": unhx(vals[1]), "list_pretty": unhx(vals[2]), "all_json": unhx(vals[3]), "all_pretty": unhx(vals[4]),
                "clean": unhx(vals[5])}, None


def split_pretty(p):
    """-> list of (index, status, block) from the pretty string"""
    if p == "\n":
        return []
    parts = re.split(r"\n-------- \[ (\d+) \](  Ready  | Pending )--------\n", p)
    if parts[0] != "":
        return None
    out = []
    for i in range(1, len(parts), 3):
        out.append((int(parts[i]), parts[i + 1].strip(), parts[i + 2]))
    if out:
        last = out[-1]
        if not last[2].endswith("\n"):
            return None
        out[-1] = (last[0], last[1], last[2][:-1])
    elif p != "\n":
        return None
    return out


class C15(ListBase):
    id = "C15"
    spec_name = "C15"
    spec_field = 0
    rule = ("one case = verif_trace, list (JSON and pretty) and clean on one document of the C15 domain (block and inline elements, no tags "
            "on wrapper lines, first byte not a line break); reference: the Ready items are, in order, the marker ranges that remove() "
            "deletes (source minus those ranges = text before whitespace tidying), one per default element / two per unwrapped element / "
            "none for nested regions, with line numbers 1+#breaks before start / before end-1, and the highlighted text equals the text "
            "of the region; expected ranges are also derived from the generator's AST; non-trivial = at least one item")

    def cases(self, rng, tier):
        yield from self.docs(rng, tier, quick(tier, 4000, 150000))
        yield from self.multi_inline(rng, quick(tier, 600, 20000))
        yield from self.empty_wrapper(rng, quick(tier, 400, 15000))
        yield from self.big_docs(rng, tier)
        # the same documents with CRLF line ends
        for c in self.docs(rng, tier, quick(tier, 600, 20000)):
            m = c.meta
            yield self.mk(m["src"].replace("\n", "\r\n"), m["ds"], m["de"], Cfg.from_json(m["cfg"]), "ast-crlf")
        # carriage returns that are not part of a CR LF pair: only LF ends a line - files with CR-only line ends, files
        # in which some line ends are CR, LF files with stray CRs inside lines
        for i, c in enumerate(self.docs(rng, tier, quick(tier, 600, 20000))):
            m = c.meta
            src = m["src"]
            if i % 3 == 0:
                src = src.replace("\n", "\r")
            elif i % 3 == 1:
                src = "".join(("\r" if ch == "\n" and rng.random() < 0.4 else ch) for ch in src)
            else:
                src = "".join((ch + "\r" if ch not in "\n\r" and rng.random() < 0.08 else ch) for ch in src)
            yield self.mk(src, m["ds"], m["de"], Cfg.from_json(m["cfg"]), "lone-cr")

    def oracle(self, case, impl, spec):
        o, err = self.unpack(impl)
        if o is None:
            return {"fail": "panic", "detail": err, "nontrivial": True, "tags": ["panic"]}
        src = case.meta["src"]
        b = src.encode()
        try:
            items = json.loads(o["list_json"])
        except Exception as e:
            return {"fail": "C15-json", "detail": "list JSON does not parse: %s" % e, "nontrivial": True, "tags": ["json"]}
        mk = o["markers"]
        nt = len(mk) > 0
        tags = ["items:%s" % (len(mk) if len(mk) < 3 else "3+")]
        stag, sfail = self.spec_verdict(spec)
        tags.append(stag)
        if sfail:
            return {"fail": "C15-spec", "detail": "Spec.c15Holds = false on the implementation's regions %r" % ([(s, e) for (s, e, _) in mk],),
                    "nontrivial": nt, "tags": tags}
        # the markers are what remove() deletes
        rem = b
        for (s, e, _) in reversed(mk):
            rem = rem[:s] + rem[e:]
        if rem.decode(errors="replace") != o["removed"]:
            return {"fail": "C15-removed", "detail": "source minus the marker ranges is not the text remove() produced", "nontrivial": nt, "tags": tags}
        if len(items) != len(mk):
            return {"fail": "C15-count", "detail": "%d list items for %d removed regions" % (len(items), len(mk)), "nontrivial": nt, "tags": tags}
        # expected regions from the AST
        if "_extents" in case.meta:
            exp = []
            def covered(r, rs):
                return any(a <= r[0] and r[1] <= z for (a, z) in rs)
            ready_default = [rs[0] for (el, rs) in case.meta["_extents"] if el.effective_ready() and not el.unwrap]
            for (el, rs) in case.meta["_extents"]:
                if el.effective_ready():
                    for r in rs:
                        if not any(r != q and covered(r, [q]) for q in ready_default):
                            exp.append(r)
            exp.sort()
            if [(s, e) for (s, e, _) in mk] != exp:
                return {"fail": "C15-regions", "detail": "regions %r, expected from the document structure %r" % ([(s, e) for (s, e, _) in mk], exp), "nontrivial": nt, "tags": tags}
        pretty = split_pretty(o["list_pretty"])
        if pretty is None or len(pretty) != len(items):
            return {"fail": "C15-pretty", "detail": "pretty list does not have one block per item", "nontrivial": nt, "tags": tags}
        for it, (s, e, _), (idx, status, block) in zip(items, mk, pretty):
            first = b.count(b"\n", 0, s) + 1
            last = b.count(b"\n", 0, e - 1) + 1
            if it["current_status"] != "Ready" or status != "Ready":
                return {"fail": "C15-status", "detail": "item not Ready", "nontrivial": nt, "tags": tags}
            if it["line_range"] != [first, last]:
                return {"fail": "C15-lines", "detail": "region %d..%d has line_range %r, expected %r" % (s, e, it["line_range"], [first, last]), "nontrivial": nt, "tags": tags}
            hl = "\n".join(re.findall(r"\x1b\[31m(.*?)\x1b\[0m", block, flags=re.S))
            region = b[s:e].decode(errors="replace")
            # a carriage return belongs to the line ending, not to the highlight (also the one in front of the line
            # break that directly follows the region)
            if region.endswith("\r") and b[e:e + 1] == b"\n":
                region = region[:-1]
            region = region.replace("\r\n", "\n").replace("\t", "    ")
            if region.endswith("\n"):
                region = region[:-1]
            if hl != region:
                return {"fail": "C15-highlight", "detail": "highlighted text %r, region text %r" % (hl, region), "nontrivial": nt, "tags": tags}
        return {"nontrivial": nt, "tags": tags}


class C16(ListBase):
    id = "C16"
    rule = ("one case = list and list_all in both formats on one document of the C15 domain, plus documents whose first byte is a line break, "
            "plus the same documents with CRLF line ends, plus unwrap-blocks with empty or blank wrapper lines (regions beginning or ending on a line-break byte); "
            "reference rendering written independently in Python (start marker column, `{n:7} |` lines with tabs expanded, end marker under "
            "the last removed column, byte-based columns); the JSON must parse to objects {line_range, annotated_code_block, current_status} "
            "and each block must equal the pretty block with colour codes stripped; non-trivial = at least one item; a file starting with a "
            "line break is the region of known finding D8")

    def cases(self, rng, tier):
        yield from self.docs(rng, tier, quick(tier, 3000, 120000))
        yield from self.docs(rng, tier, quick(tier, 600, 20000), leading_nl=True)
        yield from self.multi_inline(rng, quick(tier, 500, 20000))
        yield from self.empty_wrapper(rng, quick(tier, 400, 15000))
        yield from self.big_docs(rng, tier)
        # the same documents with CRLF line ends
        for c in self.docs(rng, tier, quick(tier, 600, 20000)):
            m = c.meta
            yield self.mk(m["src"].replace("\n", "\r\n"), m["ds"], m["de"], Cfg.from_json(m["cfg"]), "ast-crlf")

    def oracle(self, case, impl, spec):
        o, err = self.unpack(impl)
        if o is None:
            return {"fail": "panic", "detail": err, "nontrivial": True, "tags": ["panic"]}
        b = case.meta["src"].encode()
        tags = ["leading-newline" if b[:1] == b"\n" else "crlf" if b"\r\n" in b else "domain"]
        nt = False
        for (jtxt, ptxt, mk, name) in ((o["list_json"], o["list_pretty"], [m + ("R",) for m in o["markers"]], "list"),
                                       (o["all_json"], o["all_pretty"], o["all"], "list_all")):
            try:
                items = json.loads(jtxt)
            except Exception as e:
                return {"fail": "C16-json", "detail": "%s JSON does not parse: %s" % (name, e), "nontrivial": True, "tags": tags}
            if not isinstance(items, list) or len(items) != len(mk):
                return {"fail": "C16-json", "detail": "%s: %d items for %d regions" % (name, len(items) if isinstance(items, list) else -1, len(mk)), "nontrivial": True, "tags": tags}
            pretty = split_pretty(ptxt)
            if pretty is None or len(pretty) != len(items):
                return {"fail": "C16-pretty", "detail": "%s pretty output does not split into %d blocks" % (name, len(items)), "nontrivial": True, "tags": tags}
            nt = nt or len(items) > 0
            for n, (it, m, (idx, status, block)) in enumerate(zip(items, mk, pretty)):
                if set(it.keys()) != {"line_range", "annotated_code_block", "current_status"}:
                    return {"fail": "C16-json", "detail": "item keys %r" % sorted(it.keys()), "nontrivial": True, "tags": tags}
                st = "Ready" if m[3] == "R" else "Pending"
                if it["current_status"] != st or status != st or idx != n + 1:
                    return {"fail": "C16-status", "detail": "%s item %d: status %r / %r index %d, expected %s" % (name, n + 1, it["current_status"], status, idx, st), "nontrivial": True, "tags": tags}
                if ANSI.sub("", block) != it["annotated_code_block"]:
                    return {"fail": "C16-pretty-vs-json", "detail": "%s item %d: pretty block without colours differs from the JSON block" % (name, n + 1), "nontrivial": True, "tags": tags}
                first, last, res = ref_item(b, m[0], m[1])
                if it["line_range"] != [first, last]:
                    return {"fail": "C16-line-range", "detail": "%s item %d: line_range %r expected %r" % (name, n + 1, it["line_range"], [first, last]), "nontrivial": True, "tags": tags}
                if it["annotated_code_block"] != res:
                    return {"fail": "C16-render", "detail": "%s item %d renders\n%s\nexpected\n%s" % (name, n + 1, it["annotated_code_block"], res), "nontrivial": True, "tags": tags}
        return {"nontrivial": nt, "tags": tags}

    def region_leading_line_break(self, case, verdict):
        return case.meta["src"][:1] == "\n"


class C17(ListBase):
    id = "C17"
    spec_name = "C17"
    spec_field = 1
    rule = ("one case = verif_trace and list_all (JSON) on one document of the C15 domain with 0-4 pending siblings/children around and inside "
            "ready elements, both strategies; reference from the generator's AST: Ready regions as in list, plus the regions of registered, "
            "non-skip elements whose condition is false and that do not lie inside a Ready region or a larger Pending region, in source order; "
            "non-trivial = at least one Pending and one Ready item")

    def cases(self, rng, tier):
        n = quick(tier, 5000, 150000)
        for i in range(n):
            g = gen.DocGen(rng, depth=rng.choice([2, 3, 3]), p_inline=0.15, p_ready=0.45, p_skip=0.08, p_el=0.6, max_items=5, kinds=("tl", "rm", "rm", "tl", "zz"))
            items = g.doc()
            if items and isinstance(items[0], gen.Line) and items[0].inline is None and items[0].text == "":
                items[0].text = "x"
            yield self.mk_items(items, gen.Spelling(), rng.random() < 0.7, "ast")
        yield from self.multi_inline(rng, quick(tier, 500, 20000))
        # unwrap-blocks that cannot be unwrapped (no line or one line between the tags), with elements on that line
        sp = gen.Spelling()
        for i in range(quick(tier, 300, 8000)):
            lines = [rng.choice(["a", "  b", ""]) for _ in range(rng.randint(1, 2))]
            for _ in range(rng.randint(1, 2)):
                e = gen.El(rng.choice(["tl", "rm"]), rng.random() < 0.7)
                e.unwrap = True
                ind = rng.choice(["", "  ", "\t"])
                lines.append(ind + sp.open_tag(e))
                if rng.random() < 0.8:
                    parts = [rng.choice(["", "x ", "  "])]
                    for _ in range(rng.choice([1, 1, 2])):
                        ie = gen.El(rng.choice(["tl", "rm"]), rng.random() < 0.4)
                        parts.append(sp.open_tag(ie) + rng.choice(["y", "", "é"]) + sp.close_tag(ie) + rng.choice(["", " ", " z"]))
                    lines.append("".join(parts))
                lines.append(ind + sp.close_tag(e))
                lines.extend(rng.choice(["c", "", "  d"]) for _ in range(rng.randint(0, 2)))
            src = "\n".join(lines) + ("\n" if rng.random() < 0.7 else "")
            if src.startswith("\n"):
                src = "x" + src
            yield self.mk(src, "<", ">", Cfg(), "short-unwrap")
        # elements that touch: one to three inline siblings, ready or pending, each with at most one child, with nothing, a
        # blank or a character between them (a pending element directly behind the closing tag of a ready one, ...)
        import itertools
        def el_txt(state, child):
            t = gen.READY_T if state == "R" else gen.PEND_T
            inner = "" if child is None else "<tl to='%s'>c</tl>" % (gen.READY_T if child == "R" else gen.PEND_T)
            return "<tl to='%s'>%s</tl>" % (t, inner)
        shapes = [(st, ch) for st in "RP" for ch in (None, "R", "P")]
        for k in (1, 2, 3):
            for combo in itertools.product(shapes, repeat=k):
                for seps in itertools.product(["", " ", "x"], repeat=k - 1):
                    src = "a " + "".join(el_txt(*combo[i]) + (seps[i] if i < k - 1 else "") for i in range(k)) + " b\n"
                    yield self.mk(src, "<", ">", Cfg(), "touching")
        # dozens of pending elements in front of, behind and inside a ready element (no merge loop may look a fixed number
        # of entries ahead), and the big documents of the list checks
        for n_p in quick(tier, (64, 65, 130), (63, 64, 65, 70, 130, 300)):
            pend = "".join("<tl to='%s'>p%d</tl>\n" % (gen.PEND_T, i) for i in range(n_p))
            yield self.mk("a\n" + pend + "<rm name='a'>\nx\n</rm>\nz\n", "<", ">", Cfg(), "many-pending")
            yield self.mk("a\n<rm name='a'>\n" + pend + "</rm>\n" + pend + "z\n", "<", ">", Cfg(), "many-pending")
            yield self.mk("a\n<tl to='%s' unwrap-block>\n{\n" % gen.READY_T + pend + "}\n</tl>\n" + pend + "z\n", "<", ">", Cfg(), "many-pending")
        yield from self.big_docs(rng, tier)
        # outside the property's space (tags on the wrapper lines of unwrap-blocks): implementation against model only
        for i in range(quick(tier, 1500, 40000)):
            g = gen.DocGen(rng, depth=rng.choice([2, 3]), p_unwrap=0.6, p_ready=0.55, p_skip=0.05, p_wrapper_tags=0.6, p_inline=0.2,
                           max_items=3, kinds=("tl", "rm", "rm", "tl", "zz"))
            items = g.doc()
            # an unwrap-block directly inside an unwrap-block: the inner tag line is the outer wrapper line
            for e in gen.all_elements(items):
                if e.unwrap and rng.random() < 0.3:
                    e.wrap_open = None
                    e.wrap_close = None
            c = self.mk(gen.render(items, final_nl=rng.random() < 0.8), "<", ">", Cfg(), "wrapper-tags")
            c.meta["corr_only"] = True
            yield c

    def expected(self, extents):
        ready, pend = [], []
        for (el, rs) in extents:
            if el.effective_ready():
                ready.extend((r, el) for r in rs)
            elif el.kind in ("tl", "rm") and not el.skip:
                pend.extend((r, el) for r in rs)

        def inside(r, q):
            return q[0] <= r[0] and r[1] <= q[1] and r != q
        rr = [r for (r, el) in ready if not any(inside(r, q) for (q, e2) in ready if not e2.unwrap)]
        pp = [r for (r, el) in pend if not any(inside(r, q) for q in rr) and not any(inside(r, q) for (q, e2) in pend if not e2.unwrap)]
        return sorted([(r[0], r[1], "R") for r in rr] + [(r[0], r[1], "P") for r in pp])

    def oracle(self, case, impl, spec):
        o, err = self.unpack(impl)
        if o is None:
            return {"fail": "panic", "detail": err, "nontrivial": True, "tags": ["panic"]}
        b = case.meta["src"].encode()
        got = [(m[0], m[1], m[3]) for m in o["all"]]
        nr = sum(1 for g in got if g[2] == "R")
        np_ = len(got) - nr
        nt = nr > 0 and np_ > 0
        tags = ["R%d" % min(nr, 3) + "P%d" % min(np_, 3)]
        stag, sfail = self.spec_verdict(spec)
        tags.append(stag)
        if sfail:
            return {"fail": "C17-spec", "detail": "Spec.c17Holds = false on the implementation's list_all regions %r" % (got,), "nontrivial": nt, "tags": tags}
        if [(s, e) for (s, e, k) in got if k == "R"] != [(m[0], m[1]) for m in o["markers"]]:
            return {"fail": "C17-ready", "detail": "Ready items of list_all %r differ from list %r" % (got, o["markers"]), "nontrivial": nt, "tags": tags}
        if [g[0] for g in got] != sorted(g[0] for g in got):
            return {"fail": "C17-order", "detail": "items out of source order: %r" % got, "nontrivial": nt, "tags": tags}
        if "_extents" in case.meta:
            exp = self.expected(case.meta["_extents"])
            if got != exp:
                return {"fail": "C17-items", "detail": "list_all regions %r, expected %r" % (got, exp), "nontrivial": nt, "tags": tags}
        try:
            items = json.loads(o["all_json"])
        except Exception as e:
            return {"fail": "C17-json", "detail": str(e), "nontrivial": nt, "tags": tags}
        seq = [(it["line_range"], it["current_status"]) for it in items]
        expseq = [([b.count(b"\n", 0, s) + 1, b.count(b"\n", 0, e - 1) + 1], "Ready" if k == "R" else "Pending") for (s, e, k) in got]
        if seq != expseq:
            return {"fail": "C17-json-seq", "detail": "JSON (line_range, status) %r, expected %r" % (seq, expseq), "nontrivial": nt, "tags": tags}
        return {"nontrivial": nt, "tags": tags}


# ============================================================================================ C18
class C18(Base):
    id = "C18"
    shared_ops = ["clean"]
    rule = ("one case = one AST document rendered under two spellings (delimiter pair and tag names) whose delimiter characters do not occur "
            "elsewhere; clean, list and list_all on both; the output of spelling A with every tag text rewritten to spelling B must equal the "
            "output of spelling B, and the (line_range, status) sequences of both listings must coincide; non-trivial = a ready element exists")

    def mk_pair(self, items, spa, spb, final_nl, label):
        reqs = []
        srcs = []
        for sp in (spa, spb):
            src = gen.render(items, sp, final_nl)
            srcs.append(src)
            cfg = Cfg(tl=sp.tl, rm=sp.rm)
            reqs += [req("clean", src, sp.ds, sp.de, cfg), req("list:json", src, sp.ds, sp.de, cfg), req("list_all:json", src, sp.ds, sp.de, cfg)]
        tagmap = {}
        for e in gen.all_elements(items):
            tagmap[spa.open_tag(e)] = spb.open_tag(e)
            tagmap[spa.close_tag(e)] = spb.close_tag(e)
        c = Case(label, reqs, {"replay": True, "pair": True, "srcs": srcs, "a": [spa.ds, spa.de, spa.tl, spa.rm], "b": [spb.ds, spb.de, spb.tl, spb.rm],
                               "tagmap": tagmap}, key=(srcs[0], spa.ds, spb.ds, spb.tl))
        c.meta["_ready"] = any(e.effective_ready() for e in gen.all_elements(items))
        return c

    def corpus_cases(self, name, body):
        a, b = body["a"], body["b"]
        reqs = []
        for src, sp in zip(body["srcs"], (a, b)):
            cfg = Cfg(tl=sp[2], rm=sp[3])
            reqs += [req("clean", src, sp[0], sp[1], cfg), req("list:json", src, sp[0], sp[1], cfg), req("list_all:json", src, sp[0], sp[1], cfg)]
        c = Case(name, reqs, dict(body), key=(body["srcs"][0], a[0], b[0]))
        c.meta["_ready"] = True
        return [c]

    def cases(self, rng, tier):
        n = quick(tier, 1500, 40000)
        pairs = gen.SAFE_DELIMS
        for i in range(n):
            g = gen.DocGen(rng, depth=rng.choice([1, 2, 3]), p_inline=0.2, unique=True)
            items = g.doc()
            a = rng.randrange(len(pairs))
            b = rng.randrange(len(pairs))
            na = rng.choice(gen.TAG_NAMES)
            nb = rng.choice(gen.TAG_NAMES)
            spa = gen.Spelling(pairs[a][0], pairs[a][1], na[0], na[1])
            spb = gen.Spelling(pairs[b][0], pairs[b][1], nb[0], nb[1])
            yield self.mk_pair(items, spa, spb, rng.random() < 0.7, "ast-pair")
        # delimiter pairs one of which is much longer than the other, with short tag names: a whole tag (the closing
        # tag in particular) can be shorter than the longer delimiter (last, so that the pairs above stay what they were)
        lop = [("// <", ">"), ("<!-- chiritori:", ">"), ("<", "> ----------"), ("<!-- <", ">"), ("<", "/>"), ("[[[[[[[[", "]")]
        short = [("t", "r"), ("T", "R"), ("tl", "rm")]
        for i in range(quick(tier, 300, 8000)):
            g = gen.DocGen(rng, depth=rng.choice([1, 2, 3]), p_inline=0.2, unique=True)
            items = g.doc()
            da = lop[i % len(lop)]
            db = rng.choice(lop + [("<", ">"), ("[[", "]]")])
            na = rng.choice(short)
            nb = rng.choice(short + gen.TAG_NAMES[:2])
            yield self.mk_pair(items, gen.Spelling(da[0], da[1], na[0], na[1]), gen.Spelling(db[0], db[1], nb[0], nb[1]),
                               rng.random() < 0.7, "lopsided-pair")

    def oracle(self, case, impl, spec):
        vals = []
        for r in impl:
            k, v = parse_reply(r)
            if k != "ok":
                return {"fail": "panic", "detail": v, "nontrivial": True, "tags": ["panic"]}
            vals.append(unhx(v))
        m = case.meta
        nt = m.get("_ready", True)
        tags = ["%s→%s" % (m["a"][0], m["b"][0])]
        out_a, out_b = vals[0], vals[3]
        mapped = out_a
        # rewrite tag texts, longest first; tags cannot overlap because delimiters occur only in tags
        pat = re.compile("|".join(re.escape(k) for k in sorted(m["tagmap"], key=len, reverse=True))) if m["tagmap"] else None
        if pat:
            mapped = pat.sub(lambda mm: m["tagmap"][mm.group(0)], out_a)
        if mapped != out_b:
            return {"fail": "C18-clean", "detail": "clean under %r rewritten to %r gives %r, direct run gives %r" % (m["a"], m["b"], mapped, out_b), "nontrivial": nt, "tags": tags}
        for i, name in ((1, "list"), (2, "list_all")):
            try:
                sa = [(it["line_range"], it["current_status"]) for it in json.loads(vals[i])]
                sb = [(it["line_range"], it["current_status"]) for it in json.loads(vals[3 + i])]
            except Exception as e:
                return {"fail": "C18-json", "detail": str(e), "nontrivial": nt, "tags": tags}
            if sa != sb:
                return {"fail": "C18-" + name, "detail": "%s line ranges %r under %r vs %r under %r" % (name, sa, m["a"], sb, m["b"]), "nontrivial": nt, "tags": tags}
        return {"nontrivial": nt, "tags": tags}


# ============================================================================================ C19
TIMES = ["2001-01-01 00:00:00", "2002-01-01 00:00:00", "2003-01-01 00:00:00", "2004-01-01 00:00:00"]
TIME_EPOCHS = [978307200, 1009843200, 1041379200, 1072915200]
NAMES = ["n1", "n2", "n3"]


def ws_norm(s):
    return "".join(s.split())


class C19(Base):
    id = "C19"
    shared_ops = ["clean"]
    rule = ("one case = one history: an AST document whose elements carry expiry times from a small ordered set and marker names from a pool, "
            "cleaned step by step along a non-decreasing chain of 1-4 configurations (time advancing, target set growing), compared with one "
            "clean under the final configuration (equal up to whitespace) and cleaned once more under the final configuration (must not change); "
            "intermediate documents are produced by the implementation, every clean call of the history is then replayed on the model; "
            "non-trivial = at least two steps of the chain removed something")

    def chain(self, rng):
        k = rng.choice([1, 2, 2, 3, 3, 4])
        ts = sorted(rng.choice(range(0, 5)) for _ in range(k))
        names = []
        cfgs = []
        for t in ts:
            if rng.random() < 0.6 and len(names) < len(NAMES):
                names.append([n for n in NAMES if n not in names][0])
            now = 0 if t == 0 else TIME_EPOCHS[t - 1] + rng.choice([0, 0, 1, 86400])
            cfgs.append(Cfg(now=now, targets=tuple(names)))
        return cfgs

    def mk_history(self, src, cfgs, label):
        return {"src": src, "cfgs": cfgs, "label": label}

    def corpus_cases(self, name, body):
        h = self.mk_history(body["src"], [Cfg.from_json(c) for c in body["cfgs"]], name)
        return list(self.build([h]))

    def build(self, hists):
        """run the histories on the implementation (round by round), then emit cases that replay every call"""
        cur = [h["src"] for h in hists]
        docs = [[h["src"]] for h in hists]
        maxk = max(len(h["cfgs"]) for h in hists) if hists else 0
        for step in range(maxk):
            idx = [i for i, h in enumerate(hists) if step < len(h["cfgs"]) and cur[i] is not None]
            lines = [req("clean", cur[i], cfg=hists[i]["cfgs"][step]) for i in idx]
            rs = proto.run_impl(lines)
            for i, r in zip(idx, rs):
                k, v = parse_reply(r)
                cur[i] = unhx(v) if k == "ok" else None
                docs[i].append(cur[i])
        for h, ds in zip(hists, docs):
            reqs = []
            cfgs = h["cfgs"]
            ok = all(d is not None for d in ds)
            for step, cfg in enumerate(cfgs):
                if ds[step] is None:
                    break
                reqs.append(req("clean", ds[step], cfg=cfg))
            if ok:
                reqs.append(req("clean", ds[-1], cfg=cfgs[-1]))      # idempotence
                reqs.append(req("clean", ds[0], cfg=cfgs[-1]))       # one shot
            yield Case(h["label"], reqs, {"replay": True, "src": h["src"], "cfgs": [c.to_json() for c in cfgs], "_docs": ds}, key=(h["src"], tuple(c.key() for c in cfgs)))

    def cases(self, rng, tier):
        n = quick(tier, 2500, 80000)
        hists = []
        for i in range(n):
            g = gen.DocGen(rng, depth=rng.choice([2, 3]), times=TIMES, names=NAMES, p_ready=1.0, p_skip=0.05, p_unwrap=0.35, unique=True,
                           kinds=("tl", "tl", "rm", "rm", "zz"), p_inline=0.1)
            items = g.doc()
            label = "history"
            if i % 6 == 0:
                # unwrap-blocks whose wrapper line is another element's tag line (no code line of their own)
                for e in gen.all_elements(items):
                    if e.unwrap and e.children and rng.random() < 0.7:
                        if isinstance(e.children[0], gen.El):
                            e.wrap_open = None
                            label = "history+bare-unwrap"
                        if isinstance(e.children[-1], gen.El) and rng.random() < 0.7:
                            e.wrap_close = None
                            label = "history+bare-unwrap"
            if i % 6 == 3:
                # another (inline) element on the line of a block tag: in front of a closing tag, behind an opening tag
                sp0 = gen.Spelling()
                for e in gen.all_elements(items):
                    if isinstance(e, gen.El) and e.children is not None and rng.random() < 0.5 and e.indent is not None:
                        ie = gen.El(rng.choice(["tl", "rm"]), True)
                        ie.to = rng.choice(TIMES)
                        ie.name = rng.choice(NAMES)
                        txt = sp0.open_tag(ie) + rng.choice(["x", "", "y z"]) + sp0.close_tag(ie)
                        if rng.random() < 0.6:
                            e.pre_close = txt + rng.choice(["", " "])
                        else:
                            e.post_open = rng.choice(["", " "]) + txt
                        label = "history+shared-tag-line"
            doc = gen.render(items, final_nl=rng.random() < 0.8)
            if i % 6 == 0 and i % 5 == 0:
                # a stray opening tag (no closing tag of its own) in front of the document
                stray = gen.El(rng.choice(["tl", "rm"]), True)
                stray.to, stray.name = rng.choice(TIMES), rng.choice(NAMES)
                doc = gen.Spelling().open_tag(stray) + "\n" + doc
                label += "+stray-opener"
            hists.append(self.mk_history(doc, self.chain(rng), label))
            if len(hists) >= 2000:
                yield from self.build(hists)
                hists = []
        yield from self.build(hists)

    TAG_RE = re.compile(r"<(/?)([A-Za-z]+)([^<>]*)>")

    @staticmethod
    def ready_spans(src, cfg):
        """(start, end) character spans of the elements that are ready under cfg (outermost and nested alike), recovered
        from the text with the stack rule; cfg is a Cfg JSON dict"""
        spans = []
        stack = []
        for m in C19.TAG_RE.finditer(src):
            closing, name, attrs = m.group(1), m.group(2), m.group(3)
            if not closing:
                stack.append((name, m.start(), attrs))
                continue
            for k in range(len(stack) - 1, -1, -1):
                if stack[k][0] == name:
                    _, st, at = stack[k]
                    del stack[k:]
                    words = at.replace("\n", " ").split(" ")
                    ready = False
                    if "skip" not in words:
                        if name == cfg["rm"]:
                            mm = re.search(r"""name\s*=\s*(['"])(.*?)\1""", at)
                            ready = bool(mm) and mm.group(2) in cfg["targets"]
                        elif name == cfg["tl"]:
                            mm = re.search(r"""to\s*=\s*(['"])(.*?)\1""", at)
                            if mm and mm.group(2) in TIMES:
                                ready = TIME_EPOCHS[TIMES.index(mm.group(2))] <= cfg["now"]
                    if ready:
                        spans.append((st, m.end()))
                    break
        return spans

    def region_tag_at_end_of_code_line(self, case, verdict):
        """in some step of the history a ready element ends its line (only blanks follow) while non-blank text - code or
        another tag - stands before it on that line"""
        if verdict.get("fail") != "C19-composition":
            return False
        docs = case.meta.get("_docs") or [case.meta["src"]]
        cfgs = case.meta["cfgs"]
        for step, cfg in enumerate(cfgs + [cfgs[-1]]):
            for d in ([docs[step]] if step < len(docs) and docs[step] is not None else []) + ([docs[0]] if step == len(cfgs) else []):
                for (s0, e0) in self.ready_spans(d, cfg):
                    eol = d.find("\n", e0)
                    after = d[e0:eol] if eol >= 0 else d[e0:]
                    if eol < 0 or after.strip(" \t") != "":
                        continue
                    bol = d.rfind("\n", 0, s0) + 1
                    if d[bol:s0].strip(" \t") != "":
                        return True
        return False

    def region_wrapper_line_is_tag(self, case, verdict):
        """some unwrap-block has a wrapper line (the line after its opening tag / before its closing tag) that carries a tag of
        another element, or has no two distinct wrapper lines at all"""
        if verdict.get("fail") != "C19-composition":
            return False
        src = case.meta["src"]
        lines = src.split("\n")
        stack = []
        for ln, l in enumerate(lines):
            for m in self.TAG_RE.finditer(l):
                closing, name, attrs = m.group(1), m.group(2), m.group(3)
                if not closing:
                    stack.append((name, ln, any(w == "unwrap-block" or w.startswith("unwrap-block=") for w in attrs.split())))
                else:
                    for k in range(len(stack) - 1, -1, -1):
                        if stack[k][0] == name:
                            _, oln, unwrap = stack[k]
                            del stack[k:]
                            if unwrap:
                                if ln - oln < 3:
                                    return True
                                if "<" in lines[oln + 1] or "<" in lines[ln - 1]:
                                    return True
                            break
        return False

    def region_unwrap_and_stray_opener(self, case, verdict):
        """idempotence: the source contains an unwrap-block and an opening tag of a registered name without a closing tag of
        its own (stack rule: left open at the end, or given up when an outer element closed)"""
        if verdict.get("fail") != "C19-idempotence":
            return False
        src = case.meta["src"]
        names = set()
        for c in case.meta["cfgs"]:
            names.update([c["tl"], c["rm"]])
        stack, unwrap_seen, stray = [], False, False
        for m in self.TAG_RE.finditer(src):
            closing, name, attrs = m.group(1), m.group(2), m.group(3)
            if not closing:
                uw = any(w == "unwrap-block" or w.startswith("unwrap-block=") for w in attrs.replace("\n", " ").split())
                unwrap_seen = unwrap_seen or uw
                stack.append(name)
            else:
                for k in range(len(stack) - 1, -1, -1):
                    if stack[k] == name:
                        # the openers above the matched one are given up
                        if any(n in names for n in stack[k + 1:]):
                            stray = True
                        del stack[k:]
                        break
        if any(n in names for n in stack):
            stray = True
        return unwrap_seen and stray

    def oracle(self, case, impl, spec):
        ds = case.meta["_docs"]
        k = len(case.meta["cfgs"])
        vals = []
        for r in impl:
            kk, v = parse_reply(r)
            if kk != "ok":
                return {"fail": "panic", "detail": v, "nontrivial": True, "tags": ["panic"]}
            vals.append(unhx(v))
        if len(vals) != k + 2:
            return {"fail": "panic", "detail": "history aborted", "nontrivial": True, "tags": ["panic"]}
        for i in range(k):
            if vals[i] != ds[i + 1]:
                return {"fail": "C19-nondeterministic", "detail": "clean is not a function of its input at step %d" % i, "nontrivial": True, "tags": []}
        changed = sum(1 for i in range(k) if ds[i] != ds[i + 1])
        nt = changed >= 2
        tags = ["steps=%d" % k, "changing-steps=%d" % changed]
        final = ds[-1]
        if vals[k] != final:
            return {"fail": "C19-idempotence", "detail": "cleaning the result again changes it: %r -> %r" % (final, vals[k]), "nontrivial": nt, "tags": tags}
        if ws_norm(vals[k + 1]) != ws_norm(final):
            return {"fail": "C19-composition", "detail": "stepwise result %r differs (beyond whitespace) from one-shot result %r" % (final, vals[k + 1]), "nontrivial": nt, "tags": tags}
        return {"nontrivial": nt, "tags": tags}


# ============================================================================================ C20
class C20(Base):
    id = "C20"
    needs_cli = True
    extra_trusted = ["C20: clap's parsing, atty, the file system, pipes and the TZ database are exercised by running the real binary, not proved"]
    rule = ("one case = one option combination (mode clean/--list/--list-all x --list-json, delimiters, tag names, offset, current time, "
            "targets via flags / config file / both / none) on one AST document: the real binary is run with input from --filename and from "
            "stdin, output to stdout, to --output, to --output = input file and to --output = target config file, under TZ in {UTC, Asia/Tokyo, America/Los_Angeles, unset}; "
            "all results must be identical and equal to the library result for the corresponding configuration (also compared with the "
            "model); non-trivial = the document has a ready element and the run is not with all defaults")

    DEF = {"ds": "<!-- <", "de": "> -->", "tl": "time-limited", "rm": "removal-marker", "off": "+00:00"}

    @staticmethod
    def file_text(m):
        """the bytes of the target config file: names in the chosen line-ending style"""
        names = m["file"]
        style = m.get("file_style", "lf")
        if style == "crlf":
            return "".join(x + "\r\n" for x in names)
        if style == "no-final-newline":
            return "\n".join(names)
        if style == "blank-line":
            return "".join(x + "\n" for x in names[:1]) + "\n" + "".join(x + "\n" for x in names[1:])
        return "".join(x + "\n" for x in names)

    @staticmethod
    def ref_lines(text):
        """BufRead::lines(): split at LF, one trailing CR dropped, no empty last line (independent of the model)"""
        parts = text.split("\n")
        if parts and parts[-1] == "":
            parts.pop()
        return [x[:-1] if x.endswith("\r") else x for x in parts]

    def mk_case(self, m, label):
        file_targets = self.ref_lines(self.file_text(m)) if m["file"] is not None else []
        cfg = Cfg(tl=m["tl"], rm=m["rm"], now=m["now"], off=m["off"], targets=tuple(sorted(set(m["flags"]) | set(file_targets))), nanos=m.get("nanos", 0))
        op = {"clean": "clean", "list": "list:", "list_all": "list_all:"}[m["mode"]]
        if op != "clean":
            op += "json" if m["json"] else "pretty"
        # the model of main(): flags only as --removal-marker-target-name, the config file as a file
        mcfg = Cfg(tl=m["tl"], rm=m["rm"], now=m["now"], off=m["off"], targets=tuple(m["flags"]), nanos=m.get("nanos", 0))
        filehex = "-" if m["file"] is None else (hx(self.file_text(m)) or "")
        cli_req = req("cli", m["src"], m["ds"], m["de"], mcfg,
                      extra=[filehex if filehex != "" else "", "1" if m["mode"] == "list" else "0",
                             "1" if (m["mode"] == "list_all" or m.get("list_flag_both")) else "0", "1" if m["json"] else "0"])
        c = Case(label, [req(op, m["src"], m["ds"], m["de"], cfg)], dict(m, replay=True), key=json.dumps(m, sort_keys=True, ensure_ascii=False))
        c.meta["_cli_req"] = cli_req
        return c

    def corpus_cases(self, name, body):
        return [self.mk_case({k: v for k, v in body.items() if k != "replay"}, name)]

    def cases(self, rng, tier):
        n = quick(tier, 60, 1500)
        for i in range(n):
            custom = rng.random() < 0.6
            ds, de = rng.choice(gen.SAFE_DELIMS) if custom and rng.random() < 0.5 else (self.DEF["ds"], self.DEF["de"])
            tl, rm = rng.choice(gen.TAG_NAMES) if custom and rng.random() < 0.5 else (self.DEF["tl"], self.DEF["rm"])
            g = gen.DocGen(rng, depth=2, p_inline=0.2, names=["a", "b", "vec![]", "c d", "", "a\r", "b "], p_ready=0.7)
            items = g.doc()
            src = gen.render(items, gen.Spelling(ds, de, tl, rm), final_nl=rng.random() < 0.8)
            mode = rng.choice(["clean", "clean", "list", "list_all", "both"])
            names = ["a", "b", "vec![]", "c d", "x", "b "]
            flags = [rng.choice(names + [""]) for _ in range(rng.choice([0, 0, 1, 2]))]
            filen = None if rng.random() < 0.4 else [rng.choice(names) for _ in range(rng.choice([0, 1, 2, 3]))]
            m = {"src": src, "ds": ds, "de": de, "tl": tl, "rm": rm, "off": rng.choice(["+00:00", "+09:00", "-0800"]) if custom else self.DEF["off"],
                 "now": rng.choice([gen.NOW, 946684800 - 1, 946684800, 946684800 + 32400, 946684800 - 28800]), "flags": flags, "file": filen,
                 "file_style": rng.choice(["lf", "lf", "crlf", "no-final-newline", "blank-line"]),
                 "mode": mode if mode != "both" else "list", "list_flag_both": mode == "both", "json": rng.random() < 0.4}
            yield self.mk_case(m, "cli")
        # targets that come from the config file only, in every line-ending style and every mode
        sp = gen.Spelling(self.DEF["ds"], self.DEF["de"], self.DEF["tl"], self.DEF["rm"])
        for style in ["lf", "crlf", "no-final-newline", "blank-line"]:
            for mode, js in [("clean", False), ("list", False), ("list", True), ("list_all", False), ("list_all", True)]:
                pool = ["a", "b", "c d", "vec![]", "b ", ""]
                rng.shuffle(pool)
                infile = [x for x in pool[:rng.randint(1, 3)] if x != ""] or ["a"]
                lines = []
                for nm in pool:
                    e = gen.El("rm", True)
                    e.name = nm
                    lines.append(rng.choice(["", "  "]) + sp.open_tag(e) + rng.choice(["x", "\ny\n"]) + sp.close_tag(e))
                    lines.append(rng.choice(["k", "", "  z"]))
                m = {"src": "\n".join(lines) + "\n", "ds": self.DEF["ds"], "de": self.DEF["de"], "tl": self.DEF["tl"], "rm": self.DEF["rm"],
                     "off": self.DEF["off"], "now": gen.NOW, "flags": [], "file": infile, "file_style": style,
                     "mode": mode, "list_flag_both": False, "json": js}
                yield self.mk_case(m, "cli-config-file")
        # long lines, with and without a final line break: stdout is line buffered (1024 bytes), pipes have 64 KiB
        for n_chars in (1023, 1024, 1025, 5000, 70000):
            for final in (False, True):
                body = "keep();\n" + self.DEF["ds"] + "removal-marker name='a'" + self.DEF["de"] + "\ngone();\n" + self.DEF["ds"] + "/removal-marker" + self.DEF["de"] + "\n"
                src = body + "y" * n_chars + ("\n" if final else "")
                m = {"src": src, "ds": self.DEF["ds"], "de": self.DEF["de"], "tl": self.DEF["tl"], "rm": self.DEF["rm"],
                     "off": self.DEF["off"], "now": gen.NOW, "flags": ["a"], "file": None, "file_style": "lf",
                     "mode": "clean", "list_flag_both": False, "json": False}
                yield self.mk_case(m, "cli-long-line")
        # the empty document and documents of white space only, through every mode and route
        for src in ["", "\n", " ", "\n\n"]:
            for mode, js in [("clean", False), ("list", False), ("list", True), ("list_all", False), ("list_all", True)]:
                m = {"src": src, "ds": self.DEF["ds"], "de": self.DEF["de"], "tl": self.DEF["tl"], "rm": self.DEF["rm"],
                     "off": self.DEF["off"], "now": gen.NOW, "flags": [], "file": None, "file_style": "lf",
                     "mode": mode, "list_flag_both": False, "json": js}
                yield self.mk_case(m, "cli-empty-document")
        # the current time in every spelling the option accepts, with and without a fraction of a second: the same instant,
        # the same result (a spelling that is not understood would silently fall back to the clock)
        bodyt = ("keep();\n" + self.DEF["ds"] + "time-limited to='2021-06-01 00:00:00'" + self.DEF["de"] + "\nsoon();\n" + self.DEF["ds"] + "/time-limited" + self.DEF["de"] + "\n"
                 + self.DEF["ds"] + "time-limited to='2021-01-01 00:00:01'" + self.DEF["de"] + "\nedge();\n" + self.DEF["ds"] + "/time-limited" + self.DEF["de"] + "\n"
                 + self.DEF["ds"] + "time-limited to='2020-12-31 00:00:00'" + self.DEF["de"] + "\nold();\n" + self.DEF["ds"] + "/time-limited" + self.DEF["de"] + "\nend();\n")
        for spell in [None, "z", "nocolon", "space-offset", "utc-word", "lower", "space-sep"]:
            for nanos in (0, 500000000, 999999999, 1):
                for mode, js in [("clean", False), ("list_all", True)]:
                    m = {"src": bodyt, "ds": self.DEF["ds"], "de": self.DEF["de"], "tl": self.DEF["tl"], "rm": self.DEF["rm"],
                         "off": self.DEF["off"], "now": 1609459200, "nanos": nanos, "now_spelling": spell, "flags": [], "file": None,
                         "file_style": "lf", "mode": mode, "list_flag_both": False, "json": js}
                    yield self.mk_case(m, "cli-current-spelling")
        # delimiters and tag names with characters that a shell, clap or an escape-processing step might treat specially
        for ds, de in [("\\todo{<", ">}"), ("\\n<", ">\\t"), ("%{", "}%"), ("$(", ")"), ("--<", ">--"), ("\\\\<", ">")]:
            for tl, rm in [(self.DEF["tl"], self.DEF["rm"]), ("\\tl", "r\\n")]:
                d = ("keep();\n" + ds + tl + " to='2000-01-01 00:00:00'" + de + "\nold();\n" + ds + "/" + tl + de + "\n"
                     + ds + rm + " name='a'" + de + "\ngone();\n" + ds + "/" + rm + de + "\nend();\n")
                for mode, js in [("clean", False), ("list", True)]:
                    m = {"src": d, "ds": ds, "de": de, "tl": tl, "rm": rm, "off": self.DEF["off"], "now": gen.NOW, "flags": ["a"], "file": None,
                         "file_style": "lf", "mode": mode, "list_flag_both": False, "json": js}
                    yield self.mk_case(m, "cli-odd-delimiters")
        # a name given both in the config file and by flag (once or twice): the target set is the union
        sp2 = gen.Spelling(self.DEF["ds"], self.DEF["de"], self.DEF["tl"], self.DEF["rm"])
        lines2 = []
        for nm in ["a", "b", "c d", "zz"]:
            e = gen.El("rm", True)
            e.name = nm
            e.id = 1                 # plain spelling
            lines2 += [sp2.open_tag(e), "code_" + nm.replace(" ", "_") + "();", sp2.close_tag(e), "keep();"]
        for infile, flags in [(["a", "b"], ["a"]), (["a", "b"], ["b", "a"]), (["a"], ["a", "a"]), (["a", "c d"], ["c d"]), (["a", "a"], ["a"]), (["b"], ["a", "b"])]:
            for mode, js in [("clean", False), ("list", True), ("list_all", False)]:
                m = {"src": "\n".join(lines2) + "\n", "ds": self.DEF["ds"], "de": self.DEF["de"], "tl": self.DEF["tl"], "rm": self.DEF["rm"],
                     "off": self.DEF["off"], "now": gen.NOW, "flags": flags, "file": infile, "file_style": "lf",
                     "mode": mode, "list_flag_both": False, "json": js}
                yield self.mk_case(m, "cli-overlap")
        # names with characters that mean something to a shell, to clap or to a config-file reader: a line of the config
        # file and the value of a flag are names, whatever they look like
        odd = ["#1234", "a,b", "a;b", "-x", "--list", "@t", "a=b", "*", "a\\", " lead", "trail ", "é,ü", "# c", "//x", "!x"]
        lines3 = []
        for nm in odd:
            e = gen.El("rm", True)
            e.name = nm
            e.id = 1
            lines3 += [sp2.open_tag(e), "code();", sp2.close_tag(e), "keep();"]
        src3 = "\n".join(lines3) + "\n"
        for k in range(len(odd)):
            for via in ("flag", "file"):
                for mode, js in [("clean", False), ("list_all", True)]:
                    pick = [odd[k], odd[(k + 5) % len(odd)]]
                    m = {"src": src3, "ds": self.DEF["ds"], "de": self.DEF["de"], "tl": self.DEF["tl"], "rm": self.DEF["rm"],
                         "off": self.DEF["off"], "now": gen.NOW, "flags": pick if via == "flag" else [], "file": pick if via == "file" else None,
                         "file_style": "lf", "mode": mode, "list_flag_both": False, "json": js}
                    yield self.mk_case(m, "cli-odd-names")
        # option values that are empty or blank: they are values like any other, not requests for the default
        body = ("keep();\n" + self.DEF["ds"] + "time-limited to='2000-01-01 00:00:00'" + self.DEF["de"] + "\nold();\n" + self.DEF["ds"] + "/time-limited" + self.DEF["de"] + "\n"
                + self.DEF["ds"] + "removal-marker name='a'" + self.DEF["de"] + "\ngone();\n" + self.DEF["ds"] + "/removal-marker" + self.DEF["de"] + "\n"
                + self.DEF["ds"] + " to='2000-01-01 00:00:00' name='a'" + self.DEF["de"] + "\nnameless();\n" + self.DEF["ds"] + "/" + self.DEF["de"] + "\nend();\n")
        for off in ["", " ", "+00:00 ", "Z", "+0000"]:
            for tl, rm in [(self.DEF["tl"], self.DEF["rm"]), ("", self.DEF["rm"]), (self.DEF["tl"], ""), (" ", " ")]:
                for mode, js in [("clean", False), ("list_all", True)]:
                    m = {"src": body, "ds": self.DEF["ds"], "de": self.DEF["de"], "tl": tl, "rm": rm, "off": off, "now": gen.NOW,
                         "flags": ["a"], "file": None, "file_style": "lf", "mode": mode, "list_flag_both": False, "json": js}
                    yield self.mk_case(m, "cli-empty-option")

    def run_binary(self, m, route_in, route_out, tz):
        import datetime
        with tempfile.TemporaryDirectory(prefix="verif-c20-") as td:
            inp = os.path.join(td, "input.txt")
            open(inp, "wb").write(m["src"].encode())
            args = [self.cli]
            t = datetime.datetime.fromtimestamp(m["now"], datetime.timezone.utc)
            # the same instant, spelled in different zones
            if tz == "Asia/Tokyo":
                t = t.astimezone(datetime.timezone(datetime.timedelta(hours=9)))
            ts = t.isoformat()
            if m.get("nanos"):
                ts = ts[:19] + (".%09d" % m["nanos"]).rstrip("0") + ts[19:]
            sp_ = m.get("now_spelling")
            if sp_ == "z" and ts.endswith("+00:00"):
                ts = ts[:-6] + "Z"
            elif sp_ == "nocolon":
                ts = ts[:-3] + ts[-2:]
            elif sp_ == "space-offset":
                ts = ts[:-6] + " " + ts[-6:]
            elif sp_ == "utc-word" and ts.endswith("+00:00"):
                ts = ts[:-6] + " UTC"
            elif sp_ == "lower":
                ts = ts.replace("T", "t").replace("+00:00", "z")
            elif sp_ == "space-sep":
                ts = ts.replace("T", " ")
            args += ["--time-limited-current", ts]
            D = self.DEF
            if m["ds"] != D["ds"]:
                args += ["--delimiter-start=" + m["ds"]]
            if m["de"] != D["de"]:
                args += ["--delimiter-end=" + m["de"]]
            if m["tl"] != D["tl"]:
                args += ["--time-limited-tag-name=" + m["tl"]]
            if m["rm"] != D["rm"]:
                args += ["--removal-marker-tag-name=" + m["rm"]]
            if m["off"] != D["off"]:
                args += ["--time-limited-time-offset=" + m["off"]]
            for f in m["flags"]:
                args += ["--removal-marker-target-name=" + f]
            if m["file"] is not None:
                p = os.path.join(td, "targets.txt")
                open(p, "w", newline="").write(self.file_text(m))
                args += ["--removal-marker-target-config", p]
            if m["mode"] == "list":
                args += ["--list"]
                if m.get("list_flag_both"):
                    args += ["--list-all"]
            elif m["mode"] == "list_all":
                args += ["--list-all"]
            if m["json"]:
                args += ["--list-json"]
            stdin = None
            if route_in == "file":
                args += ["--filename", inp]
                stdin = subprocess.DEVNULL
            outp = None
            if route_out == "output":
                outp = os.path.join(td, "out.txt")
                args += ["--output", outp]
            elif route_out == "inplace":
                outp = inp
                args += ["--output", outp]
            elif route_out == "config":
                # the result goes to the file the targets came from: it must have been read before it is truncated
                outp = os.path.join(td, "targets.txt")
                args += ["--output", outp]
            env = dict(os.environ)
            env.pop("TZ", None)
            if tz:
                env["TZ"] = tz
            env["LC_ALL"] = "C" if tz != "Asia/Tokyo" else "ja_JP.UTF-8"
            r = subprocess.run(args, input=(m["src"].encode() if route_in == "stdin" else None), stdin=stdin if route_in != "stdin" else None,
                               stdout=subprocess.PIPE, stderr=subprocess.PIPE, env=env)
            res = open(outp, "rb").read() if outp and os.path.exists(outp) and r.returncode == 0 else r.stdout
            return r.returncode, res.decode(errors="replace"), (r.stdout.decode(errors="replace") if outp else ""), r.stderr.decode(errors="replace")

    def oracle(self, case, impl, spec):
        m = case.meta
        k, v = parse_reply(impl[0])
        if k != "ok":
            return {"fail": "panic", "detail": v, "nontrivial": True, "tags": ["panic"]}
        lib = unhx(v)
        # the Lean model of main() on the same options
        mr = proto.run_model([case.meta["_cli_req"]])[0]
        mk, mv = parse_reply(mr)
        if mk != "ok" or ":" not in mv:
            return {"fail": "C20-model", "detail": "Cli.run model reply %r" % mr, "nontrivial": True, "tags": ["model"]}
        mexit, mout = mv.split(":", 1)
        if mexit != "0" or unhx(mout) != lib:
            return {"fail": "C20-model", "detail": "Cli.run (model) exit %s output %r differs from the library result %r" % (mexit, unhx(mout), lib),
                    "nontrivial": True, "tags": ["model"]}
        # --list-json without a list flag cleans
        if m["mode"] == "clean" and m["json"]:
            pass
        routes = [("file", "stdout", "UTC"), ("stdin", "stdout", "Asia/Tokyo"), ("file", "output", "America/Los_Angeles"), ("stdin", "output", None),
                  ("file", "inplace", "UTC"), ("stdin", "stdout", "America/Los_Angeles")]
        tags = ["mode:" + m["mode"] + (":json" if m["json"] else "")]
        if m["file"] is not None:
            routes = routes + [("file", "config", "UTC"), ("stdin", "config", None)]
        for (ri, ro, tz) in routes:
            rc, res, extra_stdout, err = self.run_binary(m, ri, ro, tz)
            if rc != 0:
                return {"fail": "C20-exit", "detail": "exit %d in=%s out=%s TZ=%s: %s" % (rc, ri, ro, tz, err[-300:]), "nontrivial": True, "tags": tags}
            if res != lib:
                return {"fail": "C20-result", "detail": "in=%s out=%s TZ=%s: binary result %r differs from the library result %r" % (ri, ro, tz, res, lib), "nontrivial": True, "tags": tags}
            if extra_stdout != "":
                return {"fail": "C20-stdout", "detail": "stdout not empty with --output: %r" % extra_stdout, "nontrivial": True, "tags": tags}
        nondefault = any(m[k2] != self.DEF[k2] for k2 in self.DEF) or m["flags"] or m["file"] is not None
        return {"nontrivial": bool(nondefault) and lib != m["src"], "tags": tags}
