"""Property definitions C01-C10: generators, observables, oracles."""
import itertools, json, re

from . import gen, proto
from .engine import Case
from .proto import Cfg, req, parse_reply, unhx, hx

API_OPS = ["clean", "list:json", "list:pretty", "list_all:json", "list_all:pretty"]


def quick(tier, q, t):
    return q if tier == "quick" else t


def cfg_pool(rng):
    return Cfg(tl=rng.choice(["tl", "tl", "time-limited", "rm"]), rm="rm",
               now=rng.choice([gen.NOW, 0, 946684800, 32503680000]),
               off=rng.choice(["+00:00", "+09:00", "-0330", "", "Z", "+99:99"]),
               targets=rng.choice([("a",), (), ("a", "b"), ("",)]))


class Base:
    id = "?"
    rule = ""
    exhaustive = False

    def corpus_cases(self, name, body):
        """A corpus / replay entry: {"src":..,"ds":..,"de":..,"cfg":{..}} (+ property specific keys)."""
        cfg = Cfg.from_json(body["cfg"]) if "cfg" in body else proto.DEFAULT_CFG
        return [self.mk(body.get("src", ""), body.get("ds", "<"), body.get("de", ">"), cfg, label=name)]

    def spec_reqs(self, case, impl):
        return []

    @staticmethod
    def replay_meta(src, ds, de, cfg, **kw):
        d = {"replay": True, "src": src, "ds": ds, "de": de, "cfg": cfg.to_json()}
        d.update(kw)
        return d


def doc_stream(rng, tier, n_ast, n_mut, n_unwrap, n_junk, delims=None, ast_kw=None):
    """(src, ds, de) triples from G-ast, G-mut, G-unwrap, junk."""
    delims = delims or gen.SAFE_DELIMS
    for i in range(n_ast):
        ds, de = delims[i % len(delims)] if i % 3 == 0 else ("<", ">")
        items = gen.g_ast(rng, depth=rng.choice([1, 2, 3]), **(ast_kw or {}))
        yield gen.render(items, gen.Spelling(ds, de), final_nl=rng.random() < 0.7), ds, de
    for i in range(n_mut):
        ds, de = delims[i % len(delims)] if i % 3 == 0 else ("<", ">")
        items = gen.g_ast(rng, depth=rng.choice([1, 2, 3]), **(ast_kw or {}))
        d = gen.render(items, gen.Spelling(ds, de), final_nl=rng.random() < 0.7)
        yield gen.mutate(rng, d, ds, de), ds, de
    for d in gen.g_unwrap_random(rng, n_unwrap):
        yield d, "<", ">"
    for i in range(n_unwrap):
        g = gen.DocGen(rng, depth=rng.choice([2, 3]), p_unwrap=0.7, p_ready=0.8, p_skip=0.05, p_wrapper_tags=0.6, p_inline=0.2, max_items=3)
        items = g.doc()
        if rng.random() < 0.7:
            items.insert(0, gen.Line("pre"))
        yield gen.render(items, final_nl=rng.random() < 0.8), "<", ">"
    for i in range(n_junk):
        ds, de = gen.DELIMS[i % len(gen.DELIMS)]
        al = gen.atoms_for(ds, de) + ["tl", "rm", "/", " to='2000-01-01 00:00:00'", " name='a'", " unwrap-block", " skip"]
        for d in gen.g_atoms_random(rng, ds, de, 1, maxlen=rng.choice([6, 12, 30]), alphabet=al):
            yield d, ds, de


# ============================================================================================ C01
class C01(Base):
    id = "C01"
    needs_cli = True
    shared_ops = ["clean", "list:json", "list:pretty", "list_all:json", "list_all:pretty"]
    extra_trusted = ["C01: the recursion depth of parser::tree / collect_removable_ranges / merge_markers and allocation are runtime "
                     "facts the model cannot exhibit; they are probed by running the real binary on nested documents (family deep-nesting)"]
    rule = ("one case = one (source, delimiters, configuration) run through clean and the four list modes under catch_unwind "
            "(overflow checks on); bounded-exhaustive atom strings, random atom strings, G-ast/G-mut/G-unwrap documents; "
            "non-trivial = the implementation's token list contains at least one tag token")

    def mk(self, src, ds, de, cfg, label="gen"):
        return Case(label, [req(op, src, ds, de, cfg) for op in API_OPS] + [req("tokenize", src, ds, de, cfg)],
                    self.replay_meta(src, ds, de, cfg), key=(src, ds, de, cfg.key()))

    def cases(self, rng, tier):
        L = quick(tier, 3, 5)
        pairs = gen.DELIMS[:quick(tier, 6, 16)]
        for ds, de in pairs:
            al = gen.atoms_for(ds, de)
            # keep the exhaustive part affordable: restrict the alphabet to delimiter atoms + 5 others
            al = [a for a in al if a in ds + de or a in (ds, de)] + [" ", "\n", "a", "あ", "/"]
            for s in gen.g_atoms_exhaustive(ds, de, L, al):
                yield self.mk(s, ds, de, proto.DEFAULT_CFG, "atoms")
        for ds, de in gen.DELIMS:
            for s in gen.g_atoms_random(rng, ds, de, quick(tier, 150, 6000), maxlen=20):
                yield self.mk(s, ds, de, cfg_pool(rng), "atoms-random")
        n = quick(tier, 1500, 40000)
        for d, ds, de in doc_stream(rng, tier, n, n, n, n, delims=gen.DELIMS):
            yield self.mk(d, ds, de, cfg_pool(rng) if rng.random() < 0.3 else proto.DEFAULT_CFG, "doc")
        for d in gen.g_unwrap_exhaustive(quick(tier, 2, 3)):
            yield self.mk(d, "<", ">", proto.DEFAULT_CFG, "unwrap-exhaustive")
        # tags on the wrapper lines of (nested) unwrap-blocks
        for i in range(quick(tier, 2500, 60000)):
            g = gen.DocGen(rng, depth=rng.choice([2, 3, 3]), p_unwrap=0.7, p_ready=0.8, p_skip=0.05, p_wrapper_tags=0.6, p_inline=0.2, max_items=3)
            items = g.doc()
            if rng.random() < 0.7:
                items.insert(0, gen.Line("pre"))
            yield self.mk(gen.render(items, final_nl=rng.random() < 0.8), "<", ">", proto.DEFAULT_CFG, "wrapper-tags")
        # recursion depth: documents nested a few hundred levels deep must pass through the real binary in every mode
        # (deeper ones are the known finding D20 and are run as its witnesses)
        for depth in (50, 150, 300):
            for closed in (True, False):
                for ready in (False, True):
                    for mode in ("clean", "list", "list_all", "list_json"):
                        yield self.deep_case(depth, closed, ready, mode)
        # a very long line in front of / behind a listed region, a very long removed region, a very long tag
        def size_docs(n):
            return ("a" * n + "<rm name='a'>x</rm>\n", "a\n<rm name='a'>\n" + "x" * n + "\n</rm>\n" + "b" * 10 + "\n", "<rm name='a' c='" + "v" * n + "'>x</rm>")
        picks = [(1024, 0), (1024, 1), (1024, 2), (66000, 0)] if tier == "quick" else [(n, k) for n in (1024, 65535, 65536, 70000) for k in (0, 1, 2)]
        for n, k in picks:
            d = size_docs(n)[k]
            yield Case("sizes", [req(op, d, "<", ">", proto.DEFAULT_CFG) for op in ("clean", "list:pretty", "list:json")] + [req("tokenize", d, "<", ">", proto.DEFAULT_CFG)],
                       self.replay_meta(d, "<", ">", proto.DEFAULT_CFG), key=(d[:50], len(d)))
        # unusual but legal configuration values on small documents: offsets that are empty, blank, begin with a
        # character outside ASCII or are otherwise not `+hh:mm`; tag names that are empty, blank or hold blanks;
        # the empty target name; documents of one or two bytes and documents that are only a tag
        offs = gen.MALFORMED_OFF + gen.LENIENT_OFF + ["\uff0b09:00", "\u00e909:00", " ", "\t+09:00", "\u221209:00 ", "+", "-", "\u2212"]
        docs = ["<tl to='%s'>x</tl>" % gen.READY_T, "a\n<tl to='%s'>\nx\n</tl>\nb\n" % gen.READY_T, "<tl to=''>x</tl>", "<tl to>x</tl>",
                "<rm name='a'>x</rm><tl to='%s' unwrap-block>\n{\ny\n}\n</tl>" % gen.PEND_T]
        for off in offs:
            for d in docs:
                yield self.mk(d, "<", ">", Cfg(off=off), "config-oddities")
        # expiry times at the edges of what chrono can represent, under offsets that push them over
        for to in gen.LENIENT_TO + ["+262142-12-31 23:59:59", "-262143-01-01 00:00:00", "262142-12-31 00:00:00", "-262142-01-01 00:00:01", "9999-12-31 23:59:59", "0000-01-01 00:00:00"]:
            for off in ["+00:00", "-05:00", "+09:00", "-23:59", "+23:59", "-0001"]:
                if "'" not in to:
                    yield self.mk("<tl to='%s'>x</tl>" % to, "<", ">", Cfg(off=off), "extreme-expiry")
        tiny = ["", "<", ">", "<>", "<a", "a>", "<a>", "</", "</>", "</a>", "<tl>", "<rm>", "<tl", "é", "<é>", "\n", "<\n>", "< >", "<  >", "<tl >", "< tl>"]
        names = ["", " ", "a b", "\u00e9", "tl ", " tl", "/", "/tl", "=", "'", "tl='x'"]
        for nm in names:
            for d in tiny + ["<%s to='%s'>x</%s>" % (nm, gen.READY_T, nm), "<%s name='a'>x</%s>" % (nm, nm), "<%s>" % nm, "</%s>" % nm]:
                for cfg in (Cfg(tl=nm), Cfg(rm=nm), Cfg(tl=nm, rm=nm, targets=("",))):
                    yield self.mk(d, "<", ">", cfg, "config-oddities")
        for d in tiny:
            for cfg in (proto.DEFAULT_CFG, Cfg(targets=("",)), Cfg(off="")):
                yield self.mk(d, "<", ">", cfg, "tiny-documents")
        # white space outside ASCII right behind the indentation of the inner lines of unwrap-blocks
        for i in range(quick(tier, 800, 20000)):
            g = gen.DocGen(rng, depth=rng.choice([1, 2]), p_unwrap=0.8, p_ready=0.9, p_skip=0.0, max_items=3)
            items = g.doc()
            if i % 2 and items and isinstance(items[0], gen.El):
                items.insert(0, gen.Line("head"))
            gen.unicode_space_lines(items, rng, g.unit)
            yield self.mk(gen.render(items, final_nl=rng.random() < 0.8), "<", ">", proto.DEFAULT_CFG, "unicode-space-indent")

    @staticmethod
    def deep_doc(body):
        n = body["depth"]
        opener = "<rm name='a'>" if body.get("ready") else "<zz>"
        closer = "</rm>" if body.get("ready") else "</zz>"
        return opener * n + "x" + (closer * n if body.get("closed", True) else "")

    def deep_case(self, depth, closed=True, ready=False, mode="clean", label="deep-nesting"):
        body = {"replay": True, "deep": True, "depth": depth, "closed": closed, "ready": ready, "mode": mode}
        return Case(label, [], body, key=json.dumps(body, sort_keys=True))

    def corpus_cases(self, name, body):
        if body.get("deep"):
            return [Case(name, [], dict(body), key=json.dumps(body, sort_keys=True))]
        return super().corpus_cases(name, body)

    def region_deep_nesting(self, case, verdict):
        """the real binary dies of stack exhaustion (SIGABRT / SIGSEGV) on a document nested at least 1000 levels deep"""
        return verdict.get("fail") == "abort" and bool(case.meta.get("deep")) and case.meta.get("depth", 0) >= 1000

    def oracle_deep(self, case):
        import subprocess, tempfile, os
        m = case.meta
        doc = self.deep_doc(m)
        args = [self.cli, "--delimiter-start", "<", "--delimiter-end", ">", "--removal-marker-tag-name", "rm",
                "--removal-marker-target-name", "a", "--time-limited-current", "2020-01-01T00:00:00+00:00"]
        args += {"clean": [], "list": ["--list"], "list_all": ["--list-all"], "list_json": ["--list", "--list-json"]}[m.get("mode", "clean")]
        r = subprocess.run(args, input=doc.encode(), stdout=subprocess.PIPE, stderr=subprocess.PIPE)
        tag = "deep:%d" % m["depth"]
        if r.returncode < 0 or r.returncode in (134, 139):
            return {"fail": "abort", "detail": "the binary died with status %d on a document nested %d levels deep (%s): %s"
                    % (r.returncode, m["depth"], m.get("mode", "clean"), r.stderr.decode(errors="replace")[-200:].strip()),
                    "nontrivial": True, "tags": [tag, "abort"]}
        if r.returncode != 0:
            return {"fail": "panic", "detail": "the binary exited with %d: %s" % (r.returncode, r.stderr.decode(errors="replace")[-300:]),
                    "nontrivial": True, "tags": [tag, "panic"]}
        return {"nontrivial": True, "tags": [tag, "deep-ok"]}

    def oracle(self, case, impl, spec):
        if case.meta.get("deep"):
            return self.oracle_deep(case)
        for op, r in zip(API_OPS, impl):
            k, v = parse_reply(r)
            if k == "panic":
                return {"fail": "panic", "detail": "%s panicked: %s" % (op, v), "nontrivial": True, "tags": ["panic:" + v]}
        k, v = parse_reply(impl[-1])
        nt = k == "ok" and "E:" in v
        return {"nontrivial": nt, "tags": ["has-tag" if nt else "text-only"]}

    def shrink_candidates(self, case):
        m = case.meta
        s = m["src"]
        cfg = Cfg.from_json(m["cfg"])
        n = len(s)
        step = max(1, n // 2)
        while step >= 1:
            for i in range(0, n, step):
                t = s[:i] + s[i + step:]
                if t != s:
                    yield self.mk(t, m["ds"], m["de"], cfg, "shrunk")
            step //= 2


# ============================================================================================ C02 / C03
class C02(Base):
    id = "C02"
    shared_ops = ["clean"]
    spec_name = "C02C03"
    rule = ("one case = clean on one document; the Lean predicate Spec.c02c03Holds (output = input minus the ready extents minus "
            "some whitespace) is evaluated on the implementation's output; non-trivial = at least one ready extent")

    def mk(self, src, ds, de, cfg, label="gen"):
        return Case(label, [req("clean", src, ds, de, cfg)], self.replay_meta(src, ds, de, cfg), key=(src, ds, de, cfg.key()))

    def cases(self, rng, tier):
        n = quick(tier, 2500, 120000)
        for d, ds, de in doc_stream(rng, tier, n, n, n // 2, n // 2):
            yield self.mk(d, ds, de, proto.DEFAULT_CFG, "doc")
        for d in gen.g_unwrap_exhaustive(quick(tier, 2, 3)):
            yield self.mk(d, "<", ">", proto.DEFAULT_CFG, "unwrap-exhaustive")
        al = ["<tl to='%s'>" % gen.READY_T, "</tl>", "<rm name='a'>", "</rm>", "<rm name='b'>", "x", " ", "\n", "<tl skip>", "é"]
        for s in gen.g_atoms_exhaustive("<", ">", quick(tier, 4, 5), al):
            yield self.mk(s, "<", ">", proto.DEFAULT_CFG, "tag-atoms")
        # very long lines (no scan in the code may depend on a line being short)
        for n_chars in (4095, 4096, 4097, 9000):
            long = "q" * n_chars
            for d in ("a\n<rm name='a' unwrap-block>\nif (x) { // %s\n  keep %s\n} // %s\n</rm>\nb\n" % (long, long, long),
                      "a %s <rm name='a'>gone</rm> %s\n\nb\n" % (long, long),
                      "%s\n<tl to='%s'>\n%s\n</tl>\n%s" % (long, gen.READY_T, long, long)):
                yield self.mk(d, "<", ">", proto.DEFAULT_CFG, "long-lines")
        # tags that span lines (the oracle is the byte-level Lean predicate, so it does not care about lines)
        for i in range(quick(tier, 500, 10000)):
            ds, de = gen.SAFE_DELIMS[i % len(gen.SAFE_DELIMS)] if i % 3 == 0 else ("<", ">")
            if i % 2 == 0:
                g = gen.DocGen(rng, depth=rng.choice([1, 2, 3]), p_unwrap=0.5, p_ready=0.7, p_skip=0.15, max_items=3)
                items = g.doc()
            else:
                items = gen.g_ast(rng, depth=rng.choice([1, 2, 3]))
            yield self.mk(gen.render(items, gen.Spelling(ds, de, multiline=True), final_nl=rng.random() < 0.7), ds, de,
                          proto.DEFAULT_CFG, "multiline-tags")
        # one tag name configured for both kinds of element (told apart by their attributes only)
        same = Cfg(tl="rm", rm="rm")
        al3 = ["<rm to='%s'>" % gen.READY_T, "<rm name='a'>", "<rm name='b'>", "<rm name='a' to='%s'>" % gen.PEND_T, "</rm>", "x", "\n"]
        for s in gen.g_atoms_exhaustive("<", ">", quick(tier, 4, 5), al3):
            yield self.mk(s, "<", ">", same, "same-tag-name")
        for i in range(quick(tier, 300, 6000)):
            items = gen.g_ast(rng, depth=rng.choice([1, 2, 3]))
            sp = gen.Spelling("<", ">", tl="t", rm="t")
            yield self.mk(gen.render(items, sp, final_nl=rng.random() < 0.7), "<", ">", Cfg(tl="t", rm="t"), "same-tag-name")
        # condition attributes that are missing, valueless or empty, under target sets that contain the empty name
        al2 = ["<rm>", "<rm name>", "<rm name=''>", "</rm>", "<tl>", "<tl to>", "</tl>", "<rm name='a'>", "x", "\n"]
        for cfg in (Cfg(targets=("",)), Cfg(targets=("", "a")), Cfg(off="", targets=("",))):
            for s in gen.g_atoms_exhaustive("<", ">", quick(tier, 3, 4), al2):
                yield self.mk(s, "<", ">", cfg, "tag-atoms-empty-name")
        # plain lines that contain the characters of the (default-style) delimiters (last, so that the families above
        # draw the same random choices as before)
        from . import common
        for (_, label, src, ds, de, cfgj) in common.realistic_docs(rng.randrange(1 << 30), tier):
            yield self.mk(src, ds, de, Cfg.from_json(cfgj), label)
        # text behind the opening and the closing tag on their lines (block elements that share their tag lines with
        # code), in LF, CR LF and mixed files
        for i in range(quick(tier, 900, 20000)):
            g = gen.DocGen(rng, depth=rng.choice([1, 2, 3]), p_unwrap=0.5, p_ready=0.75, p_skip=0.05, max_items=3)
            items = g.doc()
            for e in gen.all_elements(items):
                if rng.random() < 0.5:
                    e.post_close = rng.choice(["</div>", " x", "x", "é", " // c", ";"])
                if rng.random() < 0.3:
                    e.post_open = rng.choice(["<div>", " x", "é"])
            src = gen.render(items, final_nl=rng.random() < 0.8)
            if i % 3 == 0:
                src = src.replace("\n", "\r\n")
            elif i % 3 == 1:
                src = "".join(("\r\n" if ch == "\n" and rng.random() < 0.5 else ch) for ch in src)
            yield self.mk(src, "<", ">", proto.DEFAULT_CFG, "text-behind-tags")
        # marker names and expiry values with characters that mean something elsewhere: `#`, `,`, `;`, `\\`, `%`, `*`, a
        # leading `-`, the other kind of quote
        odd = ["#123", "a#b", "a,b", "a;b", "C:\\dir\\", "100%", "*", "-x", "a=b", 'say "x"', "@x", "$x", "a\\", "\\"]
        for i in range(quick(tier, 700, 15000)):
            g = gen.DocGen(rng, depth=rng.choice([1, 2, 3]), p_unwrap=0.3, p_ready=0.6, p_skip=0.05, max_items=4, names=odd, kinds=("rm", "rm", "tl", "zz"))
            items = g.doc()
            tg = tuple(sorted(set(rng.choice(odd) for _ in range(rng.choice([1, 2, 3])))))
            yield self.mk(gen.render(items, final_nl=rng.random() < 0.8), "<", ">", Cfg(targets=tg), "odd-names")
        # tag names that are proper suffixes / prefixes of each other; delimiters of very different lengths
        for (_, label, src, ds, de, cfgj) in common.affix_docs(rng.randrange(1 << 30), tier):
            yield self.mk(src, ds, de, Cfg.from_json(cfgj), label)
        for (_, label, src, ds, de, cfgj) in common.lopsided_docs(rng.randrange(1 << 30), tier):
            yield self.mk(src, ds, de, Cfg.from_json(cfgj), label)

    def spec_reqs(self, case, impl):
        k, v = parse_reply(impl[0])
        if k != "ok":
            return []
        m = case.meta
        return [req("spec", m["src"], m["ds"], m["de"], Cfg.from_json(m["cfg"]), extra=[self.spec_name, v])]

    def oracle(self, case, impl, spec):
        k, v = parse_reply(impl[0])
        if k != "ok":
            return {"fail": "panic", "detail": v, "nontrivial": True, "tags": ["panic"]}
        ok, n = parse_reply(spec[0])[1].split(" ")
        nt = int(n) > 0
        if ok != "true":
            return {"fail": self.spec_name, "detail": "Spec.%s = false on the implementation's output" % self.spec_name,
                    "nontrivial": nt, "tags": ["ready" if nt else "no-ready"]}
        return {"nontrivial": nt, "tags": ["ready" if nt else "no-ready", "changed" if unhx(v) != case.meta["src"] else "unchanged"]}

    shrink_candidates = C01.shrink_candidates


class C03(C02):
    id = "C03"
    needs_cli = True
    rule = C02.rule + ("; plus runs of the real binary in which the targets come partly from --removal-marker-target-name and partly "
                       "from the config file: every element the union makes ready must be removed (compared with the library result)")

    def cases(self, rng, tier):
        yield from super().cases(rng, tier)
        names = ["a", "b", "c d", "vec![]", "feature1"]
        for i in range(quick(tier, 24, 300)):
            pool = names[:]
            rng.shuffle(pool)
            flags = pool[:rng.randint(0, 2)]
            filen = pool[2:2 + rng.randint(0, 2)] if i % 4 != 0 else None
            doc = "".join("x%d\n<!-- <removal-marker name='%s'> -->\ny%d\n<!-- </removal-marker> -->\n" % (j, n, j) for j, n in enumerate(pool))
            cfg = Cfg(tl="time-limited", rm="removal-marker", targets=tuple(sorted(set(flags) | set(filen or []))))
            c = Case("cli-union", [req("clean", doc, "<!-- <", "> -->", cfg)],
                     {"replay": True, "cli_union": True, "src": doc, "ds": "<!-- <", "de": "> -->", "cfg": cfg.to_json(), "flags": flags, "file": filen},
                     key=(doc, tuple(flags), tuple(filen or ["-"])))
            yield c

    def corpus_cases(self, name, body):
        if body.get("cli_union"):
            cfg = Cfg.from_json(body["cfg"])
            return [Case(name, [req("clean", body["src"], body["ds"], body["de"], cfg)], dict(body), key=json.dumps(body, sort_keys=True))]
        return super().corpus_cases(name, body)

    def spec_reqs(self, case, impl):
        return [] if case.meta.get("cli_union") else super().spec_reqs(case, impl)

    def oracle(self, case, impl, spec):
        m = case.meta
        if not m.get("cli_union"):
            return super().oracle(case, impl, spec)
        import os, subprocess, tempfile
        k, v = parse_reply(impl[0])
        if k != "ok":
            return {"fail": "panic", "detail": v, "nontrivial": True, "tags": ["panic"]}
        lib = unhx(v)
        with tempfile.TemporaryDirectory(prefix="verif-c03-") as td:
            args = [self.cli, "--time-limited-current", "2020-01-01T00:00:00+00:00"]
            for f in m["flags"]:
                args += ["--removal-marker-target-name=" + f]
            if m["file"] is not None:
                pth = os.path.join(td, "targets.txt")
                open(pth, "w").write("".join(x + "\n" for x in m["file"]))
                args += ["--removal-marker-target-config", pth]
            r = subprocess.run(args, input=m["src"].encode(), stdout=subprocess.PIPE, stderr=subprocess.PIPE)
        out = r.stdout.decode(errors="replace")
        if r.returncode != 0 or out != lib:
            return {"fail": "C03-cli", "detail": "binary with flags=%r file=%r: rc=%d output %r, library with the union of the targets %r" % (m["flags"], m["file"], r.returncode, out, lib),
                    "nontrivial": True, "tags": ["cli"]}
        return {"nontrivial": lib != m["src"], "tags": ["cli:" + ("both" if m["flags"] and m["file"] else "one-source")]}


# ============================================================================================ C04
class C04(C02):
    id = "C04"
    spec_name = "C04"
    rule = ("one case = clean on one document in which the reference evaluation (Spec.nothingReady) finds no ready element: "
            "G-ast with readiness off / skip / unregistered names / pending times / empty target sets, junk, whitespace layouts; "
            "the output must equal the input byte for byte; non-trivial = the document contains a tag token and is not vacuous")

    def cases(self, rng, tier):
        n = quick(tier, 3000, 100000)
        cfgs = [Cfg(targets=()), Cfg(now=0, targets=("zzz",)), Cfg(tl="other", rm="other2"), Cfg(off="bad", targets=())]
        for i in range(n):
            ds, de = gen.SAFE_DELIMS[i % len(gen.SAFE_DELIMS)] if i % 3 == 0 else ("<", ">")
            mode = i % 4
            kw = dict(p_ready=0.0) if mode == 0 else dict(p_skip=1.0) if mode == 1 else dict(kinds=("zz", "yy")) if mode == 2 else {}
            items = gen.g_ast(rng, depth=rng.choice([1, 2, 3]), p_blank=0.4, **kw)
            d = gen.render(items, gen.Spelling(ds, de), final_nl=rng.random() < 0.7)
            if rng.random() < 0.3:
                d = gen.mutate(rng, d, ds, de)
            yield self.mk(d, ds, de, cfgs[i % len(cfgs)] if mode == 3 else proto.DEFAULT_CFG, "no-ready-doc")
        for i in range(n):
            ds, de = gen.DELIMS[i % len(gen.DELIMS)]
            for s in gen.g_atoms_random(rng, ds, de, 1, maxlen=30):
                yield self.mk(s, ds, de, Cfg(targets=()), "junk")
        # white space other than a blank or a line break directly behind the tag name or behind the name of the condition
        # attribute: it does not end the name, so the tag is of an unregistered name (or has no condition) and nothing is ready
        for i in range(quick(tier, 400, 8000)):
            items = gen.g_ast(rng, depth=rng.choice([1, 2]), p_blank=0.3)
            d = gen.render(items, gen.Spelling(), final_nl=rng.random() < 0.7)
            w = ["\t", "\r", "\u3000", "\x0b", "\u00a0"][i % 5]
            if i % 2 == 0:
                d = d.replace("<tl ", "<tl" + w).replace("<rm ", "<rm" + w)
            else:
                d = d.replace(" to=", " to" + w + "=").replace(" name=", " name" + w + "=").replace(" to =", " to" + w + "=").replace(" name =", " name" + w + "=")
            yield self.mk(d, "<", ">", proto.DEFAULT_CFG, "odd-blank-in-tag")
        # a quoted value directly followed by a quote or by `=`: the tag is malformed, so nothing is ready
        for tail in ["'", '"', "=", "='x'", "''", "'x", '"x"', "=2999-01-01 00:00:00"]:
            for q in ("'", '"'):
                for cond in ("to=%s%s%s" % (q, gen.READY_T, q), "name=%sa%s" % (q, q)):
                    tag = "tl" if cond.startswith("to") else "rm"
                    d = "a\n<%s %s%s>\nb\n</%s>\nc\n" % (tag, cond, tail, tag)
                    yield self.mk(d, "<", ">", proto.DEFAULT_CFG, "quote-adjacent")
                    d2 = "a\n<%s c=%sv%s%s %s>\nb\n</%s>\nc\n" % (tag, q, q, tail, cond, tag)
                    yield self.mk(d2, "<", ">", proto.DEFAULT_CFG, "quote-adjacent")
        # unwrap-blocks that cannot be unwrapped
        for body in itertools.product(["", "x", "  y"], repeat=1):
            for k in (0, 1):
                lines = ["pre", gen.U_OPEN] + list(body)[:k] + [gen.U_CLOSE, "post"]
                yield self.mk("\n".join(lines) + "\n", "<", ">", proto.DEFAULT_CFG, "unwrap-too-short")
        yield self.mk("a " + gen.U_OPEN + " b " + gen.U_CLOSE + " c\n", "<", ">", proto.DEFAULT_CFG, "unwrap-one-line")
        # sources that stop inside the last delimiter (a truncated file): the cut tag is text, so an element whose
        # closing tag is cut is not an element and nothing of it may be touched
        multi = [d for d in gen.DELIMS if len(d[1]) > 1 or len(d[0]) > 1] + [("<!--", "-->"), ("/*", "*/"), ("{{", "}}"), ("<%", "%>")]
        for i in range(quick(tier, 240, 3000)):
            ds, de = multi[i % len(multi)]
            kind = rng.choice(["rm", "tl"])
            cond = "name='a'" if kind == "rm" else "to='%s'" % gen.READY_T
            lay = i % 3
            # tags padded with blanks inside the delimiters: a cut end delimiter is then a separate word of the tag
            if (i // len(multi)) % 2 == 1:
                ds, de = ds + " ", " " + de
            if lay == 0:
                base = "a\n%s%s %s%s\nx\n%s/%s%s" % (ds, kind, cond, de, ds, kind, de)
            elif lay == 1:
                base = "a %s%s %s%sx%s/%s%s" % (ds, kind, cond, de, ds, kind, de)
            else:
                base = "a\n  %s%s %s unwrap-block%s\n  {\n    x\n  }\n  %s/%s%s" % (ds, kind, cond, de, ds, kind, de)
            ds, de = ds.strip(" "), de.strip(" ")
            for cut in range(1, len(de) + len(kind) + 3):
                yield self.mk(base[:-cut], ds, de, proto.DEFAULT_CFG, "truncated")
        # elements whose condition attribute is missing, valueless, empty or unparsable, under configurations that
        # make a default value meaningful (the empty string as a target, an empty / odd offset, now far in the future)
        bodies = ["rm", "rm name", "rm nam='a'", "rm name=''", "rm name=a", "rm  name", "rm c='name' name", "rm unwrap-block",
                  "tl", "tl to", "tl to=''", "tl to='x'", "tl t='2000-01-01 00:00:00'", "tl to=2000-01-01", "tl to unwrap-block",
                  "tl name=''", "rm to='2000-01-01 00:00:00'",
                  # an unquoted value swallows what follows up to the next blank - line breaks included
                  "tl rev=3\nto='2000-01-01 00:00:00'", "rm x=1\nname='a'", "rm x=1\n name='a'", "rm x=1\tname='a'",
                  "tl rev=3\n\tto='2000-01-01 00:00:00'", "rm x=y\nname='a' z", "tl a=b\nto='2000-01-01 00:00:00'\nc",
                  # the condition attribute written twice: the first one decides
                  "rm name='b' name='a'", "rm name='' name='a'", "rm name name='a'", "rm name='b' x='1' name='a'",
                  "tl to='2999-01-01 00:00:00' to='2000-01-01 00:00:00'", "tl to='x' to='2000-01-01 00:00:00'",
                  "tl to to='2000-01-01 00:00:00'"]
        cfgs2 = [proto.DEFAULT_CFG, Cfg(targets=("",)), Cfg(targets=("", "a")), Cfg(targets=("name", "")), Cfg(off="", targets=("",)),
                 Cfg(now=4102444800, targets=("",)), Cfg(now=4102444800, off="", targets=("", "x")),
                 Cfg(tl="rm", rm="rm", targets=("",)), Cfg(tl="tl", rm="tl", targets=("",))]
        for b in bodies:
            name = b.split(" ")[0]
            for cfg in cfgs2:
                for lay in ("block", "inline", "unwrap"):
                    if lay == "block":
                        d = "a\n<%s>\nkeep me\n</%s>\nb\n" % (b, name)
                    elif lay == "inline":
                        d = "a <%s>keep</%s> b\n" % (b, name)
                    else:
                        d = "a\n  <%s>\n  {\n    keep\n  }\n  </%s>\nb\n" % (b, name)
                    yield self.mk(d, "<", ">", cfg, "malformed-condition")

    def oracle(self, case, impl, spec):
        k, v = parse_reply(impl[0])
        if k != "ok":
            return {"fail": "panic", "detail": v, "nontrivial": True, "tags": ["panic"]}
        r = parse_reply(spec[0])[1]
        has_tag = case.meta["ds"] in case.meta["src"]
        if r == "vacuous":
            return {"nontrivial": False, "tags": ["vacuous(ready element present)"]}
        if r != "true":
            return {"fail": "C04", "detail": "no ready element but output differs from input", "nontrivial": True, "tags": ["changed"]}
        return {"nontrivial": has_tag, "tags": ["identity:" + ("tags" if has_tag else "text")]}


# ============================================================================================ C05
def probe_doc(tag):
    return "x\n" + tag + "\ny\n</tl>\nz\n"


class C05(Base):
    id = "C05"
    shared_ops = ["clean"]
    rule = ("one case = one (`to` value, offset string, current instant): TimeLimitedEvaluator::is_removal directly and clean on a "
            "one-element probe document; expected decision from an independent calendar (Python datetime) for canonical values, "
            "`not ready` for the malformed classes; lenient spellings are compared with the model only; monotonicity pairs; "
            "non-trivial = canonical value within 1 day of the boundary, or a malformed/lenient class")

    LONG = "w" * 4200 + " é " + "v" * 900

    def probe(self, to, now):
        """the probe document: mostly the plain block; now and then an inline element, or an unwrap-block whose wrapper
        and inner lines are several thousand bytes long"""
        tag = "<tl to='%s'>" % to
        import zlib
        h = zlib.crc32(repr((to, now)).encode()) % 64
        if h == 1:
            return "x " + tag + "y</tl> z\n"
        if h == 2:
            return "x\n" + tag[:-1] + " unwrap-block>\nif (a) { // " + self.LONG + "\n  " + self.LONG + "\n} // " + self.LONG + "\n</tl>\nz\n"
        return probe_doc(tag)

    def mk(self, to, off, now, expect, label, nanos=0):
        cfg = Cfg(now=now, off=off, targets=(), nanos=nanos)
        reqs = [req("time", to, cfg=cfg, args=[2])]
        if "'" not in to and ">" not in to:
            reqs.append(req("clean", self.probe(to, now) if label.startswith("grid") else probe_doc("<tl to='%s'>" % to), cfg=cfg))
        return Case(label, reqs, {"replay": True, "to": to, "off": off, "now": now, "expect": expect, "nanos": nanos, "label": label},
                    key=(to, off, now, nanos))

    def corpus_cases(self, name, body):
        return [self.mk(body["to"], body["off"], body["now"], body.get("expect"), body.get("label", name), body.get("nanos", 0))]

    def cases(self, rng, tier):
        n = quick(tier, 12000, 400000)
        for (to, off, colon, now, exp) in gen.g_time_grid(rng, n):
            yield self.mk(gen.fmt_to(to), gen.fmt_off(off, colon), now, exp, "grid")
        # sub-second current instants: ready iff floor(now) >= expires
        for (to, off, colon, now, exp) in gen.g_time_grid(rng, n // 10):
            yield self.mk(gen.fmt_to(to), gen.fmt_off(off, colon), now, exp, "grid-nanos", nanos=rng.choice([1, 500000000, 999999999]))
        for to in gen.MALFORMED_TO:
            for off in ["+00:00", "+0900", "-03:30"]:
                for now in (0, gen.NOW, 32503680000):
                    yield self.mk(to, off, now, False, "malformed-to")
        # instants centuries apart: the difference does not fit 64-bit nanoseconds (about 292 years)
        for to, now, exp in [("0001-01-01 00:00:00", gen.NOW, True), ("1601-01-01 00:00:00", gen.NOW, True), ("1707-09-22 00:00:00", gen.NOW, True),
                             ("2000-01-01 00:00:00", 10413792000, True), ("2000-01-01 00:00:00", 253402300799, True),
                             ("1900-01-01 00:00:00", 7014902400, True), ("1900-01-01 00:00:00", 7025875200, True),
                             ("9999-12-31 23:59:59", gen.NOW, False), ("9999-12-31 23:59:59", -62135596800, False),
                             ("0001-01-01 00:00:00", 253402300799, True), ("2300-01-01 00:00:00", 0, False)]:
            for off in ["+00:00", "-0930", "+14:00"]:
                yield self.mk(to, off, now, exp, "far-instants")
        for off in gen.MALFORMED_OFF:
            for now in (gen.NOW, 32503680000):
                yield self.mk("2000-01-01 00:00:00", off, now, False, "malformed-off")
        for to in gen.LENIENT_TO:
            for off in ["+00:00", "-0930"] + gen.LENIENT_OFF[:3]:
                for now in (0, gen.NOW, 32503680000, 1577836799, 1577836801, 8200000000000, -8300000000000):
                    yield self.mk(to, off, now, None, "lenient")
        for off in gen.LENIENT_OFF:
            for now in (946684800 + d for d in (-86400, -32400, 0, 32400, 86400)):
                yield self.mk("2000-01-01 00:00:00", off, now, None, "lenient-off")
        if tier == "thorough":
            # every day around two century / leap boundaries
            import datetime
            for (a, b) in ((datetime.date(1999, 12, 25), datetime.date(2001, 3, 5)), (datetime.date(2099, 12, 25), datetime.date(2100, 3, 5))):
                d = a
                while d <= b:
                    base = (d - datetime.date(1970, 1, 1)).days * 86400
                    for off in (0, 540, -210, 840, -720):
                        for dn in (-1, 0, 1):
                            yield self.mk(gen.fmt_to(gen.civil(base + off * 60)), gen.fmt_off(off), base + dn, dn >= 0, "daily")
                    d += datetime.timedelta(days=1)

    def oracle(self, case, impl, spec):
        m = case.meta
        k, v = parse_reply(impl[0])
        if k != "ok":
            return {"fail": "panic", "detail": v, "nontrivial": True, "tags": ["panic"]}
        got = v == "true"
        tags = [m["label"]]
        if len(impl) > 1:
            k2, v2 = parse_reply(impl[1])
            if k2 != "ok":
                return {"fail": "panic", "detail": v2, "nontrivial": True, "tags": ["panic"]}
            out = unhx(v2)
            src = describe_src(case.reqs[1])
            cleaned = "<tl" not in out and "</tl>" not in out and out != src
            if not cleaned and out != src:
                return {"fail": "C05-probe", "detail": "probe document neither removed nor untouched: %r" % out, "nontrivial": True, "tags": tags}
            if cleaned != got:
                return {"fail": "C05-probe", "detail": "is_removal=%s but clean removed=%s" % (got, cleaned), "nontrivial": True, "tags": tags}
        if m["expect"] is not None and got != m["expect"]:
            return {"fail": "C05-decision", "detail": "to=%r off=%r now=%d: ready=%s, expected %s" % (m["to"], m["off"], m["now"], got, m["expect"]),
                    "nontrivial": True, "tags": tags}
        tags.append("ready" if got else "kept")
        return {"nontrivial": True, "tags": tags}


def describe_src(line):
    return unhx(line.split("\t")[1])


# ============================================================================================ C06
class C06(Base):
    id = "C06"
    shared_ops = ["clean"]
    needs_cli = True
    rule = ("one case = one (tag, target set, tag-name configuration): MarkerEvaluator::is_removal and clean on a probe document; "
            "expected: removed iff the first `name` attribute has a value that is a member of the target set as a whole string, "
            "no attribute is named skip, and the tag name is registered; skip at every attribute index, skip/unwrap-block inside "
            "quoted values; plus runs of the real binary with/without --removal-marker-target-name and with a config file; "
            "non-trivial = the tag carries a name attribute or a skip attribute")

    def mk_probe(self, attrs, cfg, tagname, expect, label):
        """attrs: list of (name, value|None)"""
        body = tagname
        for i, (n, v) in enumerate(attrs):
            if v is None:
                body += " " + n
            else:
                # quote character: the one the value does not contain; otherwise alternate by position
                q = '"' if "'" in v else ("'" if '"' in v else ("'", '"')[(i + len(v)) % 2])
                body += " %s=%s%s%s" % (n, q, v, q)
        # a tag name in closing form (`/rm`) is an unregistered name; its closer is tried in both spellings
        closer = tagname.lstrip("/") if (tagname.startswith("/") and (len(attrs) + len(tagname)) % 2 == 0) else tagname
        doc = "x\n<" + body + ">\ny\n</" + closer + ">\nz\n"
        return Case(label, [req("clean", doc, cfg=cfg)],
                    {"replay": True, "probe": True, "attrs": attrs, "cfg": cfg.to_json(), "tag": tagname, "expect": expect, "label": label},
                    key=(doc, cfg.key()))

    def corpus_cases(self, name, body):
        if body.get("cli"):
            return [Case(name, [], dict(body), key=json.dumps(body, sort_keys=True))]
        return [self.mk_probe([tuple(a) for a in body["attrs"]], Cfg.from_json(body["cfg"]), body["tag"], body.get("expect"), body.get("label", name))]

    def expected(self, attrs, cfg, tagname):
        if any(n == "skip" for n, _ in attrs):
            return False
        if tagname == cfg.rm:
            for n, v in attrs:
                if n == "name":
                    return v is not None and v in cfg.targets
            return False
        if tagname == cfg.tl:
            for n, v in attrs:
                if n == "to":
                    return v == gen.READY_T
            return False
        return False

    def cases(self, rng, tier):
        n = quick(tier, 6000, 150000)
        safe_names = [x for x in gen.NAME_POOL if "'" not in x and ">" not in x and "<" not in x]
        # names containing one kind of quote character: the value is opaque, membership is whole-string
        safe_names = safe_names + ["f1'b", 'f1"b', "f1", "a' skip x='", "feature1 ", " feature1", "a ", "\ta", " ", "a\n"]
        for i in range(n):
            targets = tuple(sorted(set(rng.choice(safe_names) for _ in range(rng.choice([0, 1, 1, 2, 3])))))
            tl, rm = rng.choice([("tl", "rm"), ("tl", "rm"), ("rm", "rm"), ("time-limited", "removal-marker"), ("é", "印")])
            cfg = Cfg(tl=tl, rm=rm, targets=targets)
            tagname = rng.choice([rm, rm, rm, tl, "zz", rm.upper(), rm + "x", "/" + rm, "/" + tl])
            attrs = []
            k = rng.choice([0, 1, 1, 2, 3])
            for _ in range(k):
                r = rng.random()
                if r < 0.5:
                    v = rng.choice(list(targets) + safe_names) if rng.random() < 0.8 else None
                    attrs.append(("name", v))
                elif r < 0.65:
                    attrs.append(("to", gen.READY_T))
                elif r < 0.8:
                    attrs.append(("c", rng.choice(["skip", "a skip b", "unwrap-block", "name=a", " skip ", "don't skip it", 'say "skip" now', "' skip '", '" skip "'])))
                elif r < 0.9:
                    attrs.append(("skip", None))
                else:
                    attrs.append((rng.choice(["Skip", "skipx", "xskip", "name2", "nam"]), rng.choice([None, "a"])))
            if rng.random() < 0.25:
                attrs.insert(rng.randint(0, len(attrs)), ("skip", None))
            yield self.mk_probe(attrs, cfg, tagname, self.expected(attrs, cfg, tagname), "probe")
        # the binary: defaults contribute no targets
        for c in self.cli_cases(rng, quick(tier, 40, 400)):
            yield c

    def cli_cases(self, rng, n):
        names = ["a", "b", "vec![]", "", "feature1", "Feature1", "feature", "removal-marker", "[]", "vec!", "+00:00",
                 "a,b", "#1234", "a;b", "-x", "--list", "@t", "a=b", "*", "a\\", "%s", "$HOME", "a b", "é,ü"]
        # every name of the pool once as the only flag target and once as the only config-file line
        for f in names:
            others = [x for x in names if x != f]
            for via in ("flag", "file", "file-crlf", "file-no-final-newline"):
                doc_names = [rng.choice(others), f, rng.choice(others)]
                body = {"cli": True, "doc_names": doc_names, "flags": [f] if via == "flag" else [], "file": [f] if via != "flag" else None}
                if via.startswith("file-"):
                    if f == "" and via == "file-no-final-newline":
                        continue    # an empty file has no line at all
                    body["file_style"] = via[5:]
                yield Case("cli-targets", [], body, key=json.dumps(body, sort_keys=True))
        for i in range(n):
            doc_names = [rng.choice(names) for _ in range(3)]
            flags = [rng.choice(names) for _ in range(rng.choice([0, 0, 1, 2]))]
            filen = None if rng.random() < 0.6 else [rng.choice(names) for _ in range(rng.choice([0, 1, 2]))]
            body = {"cli": True, "doc_names": doc_names, "flags": flags, "file": filen}
            yield Case("cli-targets", [], body, key=json.dumps(body, sort_keys=True))

    def run_cli(self, m):
        import os, subprocess, tempfile
        doc = "".join("x%d\n<!-- <removal-marker name='%s'> -->\ny%d\n<!-- </removal-marker> -->\n" % (i, n, i) for i, n in enumerate(m["doc_names"]))
        with tempfile.TemporaryDirectory(prefix="verif-c06-") as td:
            args = [self.cli, "--time-limited-current", "2020-01-01T00:00:00+00:00"]
            for f in m["flags"]:
                args += ["--removal-marker-target-name=" + f]
            if m["file"] is not None:
                p = os.path.join(td, "targets.txt")
                eol = {"crlf": "\r\n"}.get(m.get("file_style"), "\n")
                text = "".join(x + eol for x in m["file"])
                if m.get("file_style") == "no-final-newline" and text:
                    text = text[:-1]
                open(p, "w", newline="").write(text)
                args += ["--removal-marker-target-config", p]
            r = subprocess.run(args, input=doc.encode(), stdout=subprocess.PIPE, stderr=subprocess.PIPE)
        targets = set(m["flags"]) | set(m["file"] or [])
        # a config-file line that is empty is the empty-string target
        exp = "".join(("x%d\n" % i) if n in targets else "x%d\n<!-- <removal-marker name='%s'> -->\ny%d\n<!-- </removal-marker> -->\n" % (i, n, i)
                      for i, n in enumerate(m["doc_names"]))
        return r.returncode, r.stdout.decode(errors="replace"), exp, doc

    def oracle(self, case, impl, spec):
        m = case.meta
        if m.get("cli"):
            rc, out, exp, doc = self.run_cli(m)
            if rc != 0 or out != exp:
                return {"fail": "C06-cli", "detail": "binary with flags=%r file=%r: rc=%d output %r, expected %r" % (m["flags"], m["file"], rc, out, exp),
                        "nontrivial": True, "tags": ["cli"]}
            return {"nontrivial": True, "tags": ["cli:" + ("no-target-option" if not m["flags"] and m["file"] is None else "targets")]}
        k, v = parse_reply(impl[0])
        if k != "ok":
            return {"fail": "panic", "detail": v, "nontrivial": True, "tags": ["panic"]}
        out = unhx(v)
        src = describe_src(case.reqs[0])
        removed = out == "x\nz\n"
        if not removed and out != src:
            return {"fail": "C06-probe", "detail": "probe neither removed nor untouched: %r" % out, "nontrivial": True, "tags": ["probe"]}
        nt = any(n in ("name", "skip") for n, _ in m["attrs"])
        if m["expect"] is not None and removed != m["expect"]:
            return {"fail": "C06-decision", "detail": "tag %r attrs %r cfg %r: removed=%s expected %s" % (m["tag"], m["attrs"], m["cfg"], removed, m["expect"]),
                    "nontrivial": True, "tags": ["probe"]}
        return {"nontrivial": nt, "tags": ["removed" if removed else "kept"]}


# ============================================================================================ C07 / C08
class C07(Base):
    id = "C07"
    shared_ops = ["tokenize"]
    spec_name = "C07"
    exhaustive = True
    rule = ("one case = tokenize on one (string, delimiter pair), all six token fields compared with the model and the Lean predicate "
            "Spec.c07Holds evaluated on the implementation's tokens; bounded-exhaustive strings over the adversarial alphabet per pair "
            "plus random long strings; non-trivial = at least two tokens")
    pairs = gen.DELIMS[:10]

    def mk(self, src, ds, de, cfg=None, label="gen"):
        return Case(label, [req("tokenize", src, ds, de)], self.replay_meta(src, ds, de, proto.DEFAULT_CFG), key=(src, ds, de))

    def cases(self, rng, tier):
        L = quick(tier, 4, 5)
        for ds, de in self.pairs:
            al = gen.atoms_for(ds, de)
            al = [a for a in al if a in ds + de or a in (ds, de)] + [" ", "a", "é", "𝄞"]
            for s in gen.g_atoms_exhaustive(ds, de, L, al):
                yield self.mk(s, ds, de, label="atoms")
        for ds, de in gen.DELIMS:
            for s in gen.g_atoms_random(rng, ds, de, quick(tier, 400, 15000), maxlen=40):
                yield self.mk(s, ds, de, label="atoms-random")
        yield from self.size_cases(tier)

    def size_cases(self, tier="quick"):
        """long ASCII stretches in front of the first multi-byte character, very long tags, very long texts: no decision may
        be taken from a prefix of fixed size, no length may be kept in a small integer"""
        for n in quick(tier, (256, 1024, 4096, 4097, 65536), (255, 256, 1023, 1024, 4095, 4096, 4097, 65535, 65536)):
            for ds, de in (("<", ">"), ("<!-- <", "> -->")):
                yield self.mk("x" * n + "é", ds, de, label="sizes")
                yield self.mk("x" * n + ds + "a" + de + "é" + ds + "/a" + de + "𝄞z", ds, de, label="sizes")
                yield self.mk("é" + "x" * n + ds + "a" + de, ds, de, label="sizes")
        for n in (254, 255, 256, 257, 300, 1100, 5000):
            for ds, de in (("<", ">"), ("<!-- <", "> -->"), ("[[", "]]")):
                yield self.mk("a" + ds + "t c='" + "v" * n + "'" + de + "b" + ds + "/t" + de + "c", ds, de, label="sizes")
                yield self.mk(ds + "y" * n + de, ds, de, label="sizes")

    def spec_reqs(self, case, impl):
        k, v = parse_reply(impl[0])
        if k != "ok":
            return []
        m = case.meta
        return [req("spec", m["src"], m["ds"], m["de"], extra=[self.spec_name, v])]

    def oracle(self, case, impl, spec):
        k, v = parse_reply(impl[0])
        if k != "ok":
            return {"fail": "panic", "detail": v, "nontrivial": True, "tags": ["panic"]}
        ntok = 0 if v == "" else len(v.split(" "))
        nt = ntok >= 2
        tags = ["tokens:%s" % (ntok if ntok < 4 else "4+"), "delims:%s %s" % (case.meta["ds"], case.meta["de"])]
        if parse_reply(spec[0])[1] != "true":
            return {"fail": self.spec_name, "detail": "Spec.%s false on the implementation's tokens: %s" % (self.spec_name, v), "nontrivial": nt, "tags": tags}
        return {"nontrivial": nt, "tags": tags}

    shrink_candidates = C01.shrink_candidates


class C08(C07):
    id = "C08"
    shared_ops = ["tokenize"]
    spec_name = "C08"
    pairs = [("<", ">"), ("<!-- <", "> -->"), ("/* <", "> */"), ("// --", "-- //"), ("aab", "bba"), ("[[", "]]"), ("%%", "%%"), ("«", "»"), ("<<", ">>")]
    rule = ("one case = tokenize on one (string, delimiter pair); kinds and values of the implementation's tokens compared with the "
            "textbook leftmost-shortest scan (Spec.textbook); bounded-exhaustive strings over delimiter characters + filler for the "
            "delimiter pairs named in the property, random documents; failures inside the documented region of the known finding D4 "
            "(multi-character delimiter, the Lean predicate fitsSource - the hypothesis of the theorem c08_source - false on the source, implementation = model) are reported as KNOWN-FINDING; "
            "non-trivial = at least two tokens")

    def cases(self, rng, tier):
        L = quick(tier, 5, 7)
        for ds, de in self.pairs:
            al = []
            for ch in ds + de:
                if ch not in al:
                    al.append(ch)
            al += [x for x in ["x", " "] if x not in al]
            if len(al) > 5:
                LL = L - 1
            else:
                LL = L
            for s in gen.g_atoms_exhaustive(ds, de, LL, al):
                yield self.mk(s, ds, de, label="delim-chars")
            for s in gen.g_atoms_random(rng, ds, de, quick(tier, 500, 20000), maxlen=30, alphabet=al + [ds, de, ds, de]):
                yield self.mk(s, ds, de, label="delim-random")
            # multi-byte characters directly behind / in front of / inside delimiters
            mb = [ds, de, ds, de, "é", "あ", "𝄞", "x", " "] + [c for c in ds + de]
            for s in gen.g_atoms_random(rng, ds, de, quick(tier, 300, 10000), maxlen=12, alphabet=mb):
                yield self.mk(s, ds, de, label="delim-multibyte")
            for s in gen.g_atoms_exhaustive(ds, de, 3, [ds, de, "あ", "x"]):
                yield self.mk(s, ds, de, label="delim-multibyte")
        n = quick(tier, 600, 20000)
        for d, ds, de in doc_stream(rng, tier, n, n, 0, 0, delims=self.pairs):
            yield self.mk(d, ds, de, label="doc")
        yield from self.size_cases(tier)

    def spec_reqs(self, case, impl):
        rs = super().spec_reqs(case, impl)
        if rs:
            m = case.meta
            rs.append(req("spec", m["src"], m["ds"], m["de"], extra=["C08fits"]))
        return rs

    def oracle(self, case, impl, spec):
        r = super().oracle(case, impl, spec)
        # where the input lies with respect to the theorem c08_source (hypothesis fitsSource, evaluated by the Lean driver)
        if len(spec) > 1 and "tags" in r:
            fits = parse_reply(spec[1])[1] == "true"
            r["tags"] = r["tags"] + ["c08_source:" + ("covers" if fits else "does-not-cover")]
            if fits and r.get("fail") == self.spec_name:
                r["detail"] = "(the input satisfies the hypothesis of the theorem c08_source: implementation and model must differ) " + r["detail"]
        return r

    def region_not_well_delimited(self, case, verdict):
        """the region of D4: a multi-character delimiter and a source that does not FIT the delimiters - the Lean predicate
        Props.C08.fitsSource, i.e. the hypothesis of the theorem c08_source (evaluated by the model driver); every source
        the theorem covers is outside the region, so a failure there is reported as a violation"""
        m = case.meta
        if not (len(m["ds"]) > 1 or len(m["de"]) > 1):
            return False
        r = proto.run_model([req("spec", m["src"], m["ds"], m["de"], proto.DEFAULT_CFG, extra=["C08fits"])])[0]
        k, v = parse_reply(r)
        return k == "ok" and v == "false"


# ============================================================================================ C09
def parse_el(s):
    if s == "-":
        return None
    parts = s.split(";")
    name = unhx(parts[0][1:])
    attrs = []
    for a in parts[1:]:
        if "=" in a:
            n, v = a.split("=", 1)
            attrs.append((unhx(n), unhx(v)))
        else:
            attrs.append((unhx(a), None))
    return (name, attrs)


class C09(Base):
    id = "C09"
    rule = ("one case = one tag rendered from the grammar (0-4 attributes, bare / single / double quoted, adversarial values, separators "
            "with line breaks, padding) between the delimiters; element_parser::parse on the token must return exactly the name and "
            "attributes of the grammar; opacity: the same tag with every quoted value replaced must keep name, other attributes and the "
            "clean decision; malformed bodies are compared with the model only; non-trivial = at least one attribute")

    def mk(self, body, ds, de, expect, label, decision=None):
        src = ds + body + de
        reqs = [req("elparse", src, ds, de)]
        meta = {"replay": True, "body": body, "ds": ds, "de": de, "expect": expect, "label": label, "decision": decision}
        if decision is not None:
            reqs.append(req("clean", "x\n" + src + "\ny\n" + ds + "/" + decision["tag"] + de + "\nz\n", ds, de, Cfg(targets=("a",))))
        return Case(label, reqs, meta, key=(src, ds, de))

    def corpus_cases(self, name, body):
        exp = body.get("expect")
        if exp is not None:
            exp = (exp[0], [tuple(a) for a in exp[1]])
        return [self.mk(body["body"], body.get("ds", "<"), body.get("de", ">"), exp, body.get("label", name), body.get("decision"))]

    def cases(self, rng, tier):
        n = quick(tier, 12000, 300000)
        for i in range(n):
            ds, de = gen.SAFE_DELIMS[i % len(gen.SAFE_DELIMS)] if i % 4 == 0 else ("<", ">")
            t = gen.g_tag(rng, forbid=(de, ds[0], de[0]))
            if any(c in t.body() for c in (de,)):
                continue
            yield self.mk(t.body(), ds, de, t.expected(), "grammar")
        # opacity of removal decisions: README-style free text in c="..."
        for i in range(quick(tier, 2000, 40000)):
            kind = rng.choice(["tl", "rm"])
            ready = rng.random() < 0.5
            cond = ("to='%s'" % (gen.READY_T if ready else gen.PEND_T)) if kind == "tl" else ("name='%s'" % ("a" if ready else "b"))
            q = rng.choice(["'", '"'])
            v = rng.choice([x for x in gen.VALUE_POOL if q not in x and ">" not in x])
            sep = rng.choice(gen.SEPS)
            attrs = [cond, "c=%s%s%s" % (q, v, q)]
            if rng.random() < 0.5:
                attrs.reverse()
            body = kind + " " + sep.join(attrs)
            exp_attrs = []
            for w in sep.replace("\n", " ").split(" "):
                if w:
                    exp_attrs.append((w, None))
            a0 = attrs[0].split("=", 1)
            a1 = attrs[1].split("=", 1)
            expect = (kind, [(a0[0], a0[1][1:-1])] + exp_attrs + [(a1[0], a1[1][1:-1])])
            yield self.mk(body, "<", ">", expect, "opaque-comment", decision={"tag": kind, "ready": ready})
        # a quoted value that holds an occurrence of the end delimiter which the tokenizer passes over (it stands behind
        # a failed partial match, D4): the tag is one token, and the value must come out whole
        for ds, de, inner in [("<!--", "-->", "--->"), ("/*", "*/", "**/"), ("<!-- <", "> -->", ">> -->"), ("<!--", "-->", "---> --->")]:
            for kind, ready in [("tl", True), ("tl", False), ("rm", True), ("rm", False)]:
                for q in ("'", '"'):
                    for order in (0, 1):
                        condv = (gen.READY_T if ready else gen.PEND_T) if kind == "tl" else ("a" if ready else "b")
                        cname = "to" if kind == "tl" else "name"
                        val = "a" + inner + "b"
                        attrs = [(cname, condv), ("c", val)]
                        if order:
                            attrs.reverse()
                        pad = " " if ds.endswith("-") or ds.endswith("*") else ""
                        body = pad + kind + " " + " ".join("%s=%s%s%s" % (n, q, v, q) for n, v in attrs) + pad
                        yield self.mk(body, ds, de, (kind, [(n, v) for n, v in attrs]), "delimiter-in-value", decision={"tag": kind, "ready": ready})
        # backslashes in quoted values - in front of the closing quote in particular: a backslash is an ordinary character
        for val in ["C:\\legacy\\", "\\", "a\\", "\\\\", "a\\b", "\\n", "x \\"]:
            for kind, ready in [("tl", True), ("tl", False), ("rm", True), ("rm", False)]:
                for q in ("'", '"'):
                    for order in (0, 1):
                        condv = (gen.READY_T if ready else gen.PEND_T) if kind == "tl" else ("a" if ready else "b")
                        cname = "to" if kind == "tl" else "name"
                        attrs = [("c", val), (cname, condv)]
                        if order:
                            attrs.reverse()
                        body = kind + " " + " ".join("%s=%s%s%s" % (n, q, v, q) for n, v in attrs)
                        yield self.mk(body, "<", ">", (kind, [(n, v) for n, v in attrs]), "backslash-in-value", decision={"tag": kind, "ready": ready})
        for b in gen.MALFORMED_BODIES:
            for ds, de in [("<", ">"), ("[[", "]]")]:
                yield self.mk(b, ds, de, None, "malformed")
        # small tags, exhaustively: name + up to 2 attributes over small pools
        kinds = [("bare", "a"), ("bare", "skip"), ("sq", "n", ""), ("sq", "n", "a b"), ("dq", "n", "it's"), ("sq", "n", "skip"), ("dq", "c", "\n x=")]
        seps = [" ", "\n", "\n  ", "  "] if tier == "quick" else gen.SEPS
        for k in (1, 2):
            for combo in itertools.product(kinds, repeat=k):
                for ss in itertools.product(seps, repeat=k):
                    for eq in ("=", " = ") if tier != "quick" else ("=",):
                        attrs = []
                        for c in combo:
                            if c[0] == "bare":
                                attrs.append(("bare", c[1], None, "", "", ""))
                            else:
                                q = "'" if c[0] == "sq" else '"'
                                pre, post = eq.split("=")
                                attrs.append((c[0], c[1], c[2], pre, post, q))
                        t = gen.Tag("tl", attrs, list(ss))
                        yield self.mk(t.body(), "<", ">", t.expected(), "small-exhaustive")

    def oracle(self, case, impl, spec):
        m = case.meta
        k, v = parse_reply(impl[0])
        if k != "ok":
            return {"fail": "panic", "detail": v, "nontrivial": True, "tags": ["panic"]}
        toks = v.split(" ")
        tags = [m["label"]]
        if m["expect"] is not None:
            if len(toks) != 1:
                return {"fail": "C09-token", "detail": "tag did not tokenize to one token: %r" % v, "nontrivial": True, "tags": tags}
            got = parse_el(toks[0])
            exp = (m["expect"][0], [tuple(a) for a in m["expect"][1]])
            if got is None or got[0] != exp[0] or got[1] != exp[1]:
                return {"fail": "C09-grammar", "detail": "body %r parsed to %r, grammar says %r" % (m["body"], got, exp), "nontrivial": True, "tags": tags}
            nt = len(exp[1]) > 0
        else:
            nt = True
        if m["decision"] is not None:
            k2, v2 = parse_reply(impl[1])
            if k2 != "ok":
                return {"fail": "panic", "detail": v2, "nontrivial": True, "tags": ["panic"]}
            out = unhx(v2)
            removed = out == "x\nz\n"
            if removed != m["decision"]["ready"] or (not removed and out != describe_src(case.reqs[1])):
                return {"fail": "C09-opacity", "detail": "body %r: removed=%s expected %s (output %r)" % (m["body"], removed, m["decision"]["ready"], out),
                        "nontrivial": True, "tags": tags}
        return {"nontrivial": nt, "tags": tags}


# ============================================================================================ C10
def tree_tokens(s):
    """token byte starts in document order from a rendered tree string"""
    out = []
    stack = []
    for w in s.split(" "):
        if not w:
            continue
        if w[0] == "T":
            out.append(int(w[1:]))
        elif w[0] == "E":
            a, b = w[1:-1].split(",")
            out.append(int(a))
            stack.append(int(b))
        elif w == ")":
            out.append(stack.pop())
    return out


class C10(Base):
    id = "C10"
    shared_ops = ["tree"]
    exhaustive = True
    rule = ("one case = parser::parse on one token sequence (rendered tree with the byte offsets of every opener/closer/text token); "
            "compared with the model and with the stack machine Spec.stackParse; every token must appear exactly once in document order; "
            "all sequences up to a length bound over {<a>,<b>,</a>,</b>,</z>,<//a>,text} plus random long ones; "
            "non-trivial = at least one closing tag in the sequence")

    def mk(self, src, ds="<", de=">", cfg=None, label="gen"):
        return Case(label, [req("tree", src, ds, de), req("tokenize", src, ds, de)], self.replay_meta(src, ds, de, proto.DEFAULT_CFG), key=src)

    def cases(self, rng, tier):
        for s in gen.g_seq_exhaustive(quick(tier, 5, 7)):
            yield self.mk(s, label="seq-exhaustive")
        for s in gen.g_seq_random(rng, quick(tier, 3000, 100000)):
            yield self.mk(s, label="seq-random")
        n = quick(tier, 500, 20000)
        for d, ds, de in doc_stream(rng, tier, n, n, n // 4, 0):
            yield self.mk(d, ds, de, label="doc")
        # hundreds of unclosed opening tags or stray closing tags in front of an element (a file with many plain comments
        # under delimiters that make a comment a tag): the pairing behind them is as it would be without them
        for k in (100, 255, 256, 257, 300, 600):
            for unit in ("<b>t", "</z>", "<b></z>", "<!x>\n"):
                for tail in ("<a>x</a>y", "<a><c>x</a>y</c>", "<a>x<a>y</a>z</a>"):
                    yield self.mk(unit * k + tail, label="many-stray")

    def spec_reqs(self, case, impl):
        k, v = parse_reply(impl[0])
        if k != "ok":
            return []
        m = case.meta
        return [req("spec", m["src"], m["ds"], m["de"], extra=["C10", v])]

    def oracle(self, case, impl, spec):
        k, v = parse_reply(impl[0])
        k2, v2 = parse_reply(impl[1])
        if k != "ok" or k2 != "ok":
            return {"fail": "panic", "detail": v, "nontrivial": True, "tags": ["panic"]}
        nt = "/" in case.meta["src"]
        tags = ["closers" if nt else "no-closer", "elements" if "E" in v else "flat"]
        toks = [int(t.split(":")[3]) for t in v2.split(" ")] if v2 else []
        if tree_tokens(v) != toks:
            return {"fail": "C10-flatten", "detail": "tree does not contain every token once in order: %s vs tokens %s" % (v, toks), "nontrivial": nt, "tags": tags}
        if parse_reply(spec[0])[1] != "true":
            return {"fail": "C10-stack", "detail": "tree differs from the stack machine: %s" % v, "nontrivial": nt, "tags": tags}
        return {"nontrivial": nt, "tags": tags}

    shrink_candidates = C01.shrink_candidates
